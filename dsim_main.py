#!/venv/bin/python
"""CLI of the deterministic-simulation checks.

  dsim_main.py C05 --tier quick          run the check for one property
  dsim_main.py --replay FILE             re-execute a replay file
  dsim_main.py --digests C05 --indices 0,1,2   (internal: determinism test)
"""
import argparse
import json
import os
import warnings
import sys

HERE = os.path.dirname(os.path.abspath(__file__))
if HERE not in sys.path:
    sys.path.insert(0, HERE)


# (a task that the last event of a run created is cancelled at teardown
# before its first step)
warnings.filterwarnings('ignore', message='coroutine .* was never awaited')


def main():
    ap = argparse.ArgumentParser()
    ap.add_argument('prop', nargs='?')
    ap.add_argument('--tier', default=os.environ.get('VERIF_TIER', 'quick'))
    ap.add_argument('--replay')
    ap.add_argument('--quiet', action='store_true')
    ap.add_argument('--digests')
    ap.add_argument('--indices', default='')
    ap.add_argument('--runs', type=int)
    ap.add_argument('--budget', type=float)
    ap.add_argument('--workers', type=int)
    ap.add_argument('--selftest', action='store_true')
    a = ap.parse_args()
    from dsim import runner
    seed = int(os.environ.get('VERIF_SEED', '0') or 0)
    if a.selftest:
        return selftest(runner, seed)
    if a.replay:
        ok, same, out = runner.replay_file(a.replay, quiet=False)
        if ok:
            with open(a.replay) as f:
                doc = json.load(f)
            print('VIOLATION property=%s replay=%s' % (doc['property'],
                                                       a.replay))
            return 1
        return 0
    if a.digests:
        mod = runner.load_prop(a.digests)
        res = {}
        for i in [int(x) for x in a.indices.split(',') if x != '']:
            res[str(i)] = runner.run_one(mod, a.tier, seed, i).get('digest')
        print(json.dumps(res))
        return 0
    if not a.prop:
        ap.error('property id required')
    tier = a.tier if a.tier in ('quick', 'thorough') else 'quick'
    return runner.check(a.prop.upper(), tier, seed, workers=a.workers,
                        n_runs=a.runs, budget_s=a.budget)


def selftest(runner, seed):
    """Setup-time self-test: engineio comes from /repo/src, and a sample of
    seeds of every built property replays bit-identically in-process and in
    a fresh interpreter with another PYTHONHASHSEED."""
    import glob
    import engineio
    from dsim import worlds
    print('engineio from', engineio.__file__)
    bad = 0
    props = sorted(os.path.basename(p)[:-3].upper() for p in glob.glob(
        os.path.join(HERE, 'dsim', 'props', 'c*.py')))
    for pid in props:
        mod = runner.load_prop(pid)
        idx = list(range(8))
        a = {str(i): runner.run_one(mod, 'quick', seed, i).get('digest')
             for i in idx}
        b = {str(i): runner.run_one(mod, 'quick', seed, i).get('digest')
             for i in idx}
        fresh, err = runner.fresh_digests(pid, 'quick', seed, idx)
        ok = a == b and fresh == a and None not in a.values()
        print('selftest %s: %s' % (pid, 'ok' if ok else 'MISMATCH'))
        if not ok:
            bad += 1
            print(a, b, fresh, err[-300:])
    return 2 if bad else 0


if __name__ == '__main__':
    sys.exit(main())

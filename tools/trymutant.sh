#!/bin/sh
# tools/trymutant.sh <patch.diff> [props...]   run quick checks against a scratch
# copy of /repo/src with the patch applied (never touches /repo itself)
patch="$1"; shift
props="$*"
[ -z "$props" ] && props=$(ls dsim/props/c*.py | sed 's/.*\/c\([0-9]*\)\.py/C\1/')
scratch=$(mktemp -d /dev/shm/mutsrc.XXXXXX)
mkdir -p "$scratch/repo"
cp -r /repo/src "$scratch/repo/src"
( p=$(realpath "$patch"); cd "$scratch/repo" && patch -p1 -s < "$p" ) || { echo "PATCH FAILED"; rm -rf "$scratch"; exit 3; }
caught=""
for p in $props; do
  out=$(VERIF_EVIDENCE_DIR="$scratch/ev" VERIF_REPLAY_DIR="${KEEP_REPLAYS:-$scratch/replays}" VERIF_REPO_SRC="$scratch/repo/src" VERIF_MIN_BUDGET_S=${VERIF_MIN_BUDGET_S:-3} VERIF_MAX_REPORT=3 ./check $p ${TIER:+--tier $TIER} 2>&1); rc=$?
  nv=$(echo "$out" | grep -c "^VIOLATION")
  echo "$p rc=$rc violations=$nv $(echo "$out" | grep "^  signature" | grep -v "(known)" | head -3 | tr '\n' ';' | cut -c1-260)"
  [ $rc -eq 1 ] && caught="$caught $p"
  [ $rc -eq 2 ] && echo "$out" | grep "HARNESS" | head -3
done
echo "CAUGHT BY:$caught"
rm -rf "$scratch"

#!/venv/bin/python
"""Confirm a sub-agent's seeded regression and file it under seeded/<id>/.

  tools/seed_intake.py C05 [/tmp/mutout/C05]

Confirms, in a scratch copy of /repo (never /repo itself):
  1. the patch applies and the repository's suite gives the baseline result,
  2. the demonstration passes on the unchanged tree and fails on the changed,
  3. which of our checks report a VIOLATION on the changed tree.
"""
import json
import os
import shutil
import subprocess
import sys
import tempfile

VERIF = os.path.dirname(os.path.dirname(os.path.abspath(__file__)))
sys.path.insert(0, os.path.join(VERIF, 'tools'))
from mutants import suite_failures  # noqa


def sh(cmd, **kw):
    return subprocess.run(cmd, capture_output=True, text=True, **kw)


def main():
    pid = sys.argv[1]
    src = sys.argv[2] if len(sys.argv) > 2 else '/tmp/mutout/' + pid
    props = sys.argv[3:] or [pid]
    name = pid if not os.environ.get('SEED_NAME') else os.environ['SEED_NAME']
    patch = os.path.join(src, 'patch.diff')
    demo = os.path.join(src, 'demo.py')
    scratch = tempfile.mkdtemp(prefix='seed-', dir='/dev/shm')
    try:
        os.makedirs(scratch + '/repo')
        shutil.copytree('/repo/src', scratch + '/repo/src')
        r = sh(['patch', '-p1', '-s', '-i', patch], cwd=scratch + '/repo')
        if r.returncode:
            print('patch does not apply:', r.stdout, r.stderr)
            return 1
        base_failed, base_tail = suite_failures('/repo/src')
        mut_failed, mut_tail = suite_failures(scratch + '/repo/src')
        suite_ok = base_failed == mut_failed
        print('suite baseline:', base_tail)
        print('suite mutated :', mut_tail, 'same failing set:', suite_ok)
        d0 = sh(['/venv/bin/python', demo],
                env=dict(os.environ, PYTHONPATH='/repo/src'), timeout=300)
        d1 = sh(['/venv/bin/python', demo],
                env=dict(os.environ, PYTHONPATH=scratch + '/repo/src'),
                timeout=300)
        print('demo unchanged: exit %s %s' % (d0.returncode,
                                              d0.stdout.strip()[-200:]))
        print('demo changed  : exit %s %s' % (d1.returncode,
                                              d1.stdout.strip()[-300:]))
        demo_ok = d0.returncode == 0 and d1.returncode != 0
        env = dict(os.environ, VERIF_REPO_SRC=scratch + '/repo/src',
                   VERIF_EVIDENCE_DIR=scratch + '/ev',
                   VERIF_REPLAY_DIR=scratch + '/replays',
                   VERIF_MIN_BUDGET_S='3', VERIF_MAX_REPORT='3')
        results = {}
        for p in props:
            for tier in ('quick',) + (('thorough',) if os.environ.get(
                    'SEED_THOROUGH') else ()):
                c = sh([VERIF + '/check', p, '--tier', tier], cwd=VERIF,
                       env=env, timeout=3600)
                sigs = [l.strip() for l in c.stdout.splitlines()
                        if l.startswith('  signature') and
                        '(known)' not in l]
                results['%s/%s' % (p, tier)] = {'exit': c.returncode,
                                                'signatures': sigs[:5]}
                print('check %s %s: exit %s %s' % (p, tier, c.returncode,
                                                   sigs[:3]))
                if c.returncode == 1:
                    break
        caught = sorted({k.split('/')[0] for k, v in results.items()
                         if v['exit'] == 1})
        out = os.path.join(VERIF, 'seeded', name)
        os.makedirs(out, exist_ok=True)
        shutil.copy(patch, out + '/patch.diff')
        shutil.copy(demo, out + '/demo.py')
        notes = ''
        if os.path.exists(src + '/notes.md'):
            shutil.copy(src + '/notes.md', out + '/notes.md')
            notes = open(src + '/notes.md').read()
        meta = {
            'property': pid,
            'origin': 'fresh sub-agent given only the property text and a '
                      'scratch worktree',
            'needs_to_manifest': notes.strip()[-700:],
            'confirmed': {
                'suite_same_as_baseline': suite_ok,
                'suite_baseline': base_tail, 'suite_mutated': mut_tail,
                'demo_passes_unchanged': d0.returncode == 0,
                'demo_fails_changed': d1.returncode != 0,
                'demo_output_changed': d1.stdout.strip()[-300:],
            },
            'what_was_run': [
                'patch -p1 < patch.diff in a scratch copy of /repo/src',
                'PYTHONPATH=<copy>/src /venv/bin/python -m pytest -q -p '
                'no:cacheprovider --timeout=900 '
                '--continue-on-collection-errors (cwd /repo)',
                'PYTHONPATH=/repo/src python demo.py ; '
                'PYTHONPATH=<copy>/src python demo.py',
                'VERIF_REPO_SRC=<copy>/src ./check <prop> --tier quick'],
            'checks': results, 'caught_by': caught,
            'kept': bool(suite_ok and demo_ok),
        }
        with open(out + '/meta.json', 'w') as fh:
            json.dump(meta, fh, indent=1)
        print('kept=%s caught_by=%s -> %s' % (meta['kept'], caught, out))
        return 0
    finally:
        shutil.rmtree(scratch, ignore_errors=True)


if __name__ == '__main__':
    sys.exit(main())

#!/venv/bin/python
"""Sensitivity run: every patch in mutants/ (and seeded/*/patch.diff) is applied
to a scratch copy of /repo/src; the repository's test-suite must still pass
(same failures as the baseline) and the expected property's quick check must
report a VIOLATION.  Results -> evidence/sensitivity.json"""
import concurrent.futures as cf
import glob
import json
import os
import re
import shutil
import subprocess
import sys
import tempfile

VERIF = os.path.dirname(os.path.dirname(os.path.abspath(__file__)))


def suite_failures(src_root, tests_root='/repo'):
    env = dict(os.environ, PYTHONPATH=src_root)
    r = subprocess.run(['/venv/bin/python', '-m', 'pytest', '-q', '-p',
                        'no:cacheprovider', '--timeout=900',
                        '--continue-on-collection-errors', '-x', '-q',
                        '--no-header', '-rN', '--co', '-q'], cwd=tests_root,
                       env=env, capture_output=True, text=True)
    r = subprocess.run(['/venv/bin/python', '-m', 'pytest', '-q', '-p',
                        'no:cacheprovider', '--timeout=900',
                        '--continue-on-collection-errors'], cwd=tests_root,
                       env=env, capture_output=True, text=True)
    failed = sorted(l.split(' ')[1] for l in r.stdout.splitlines()
                    if l.startswith('FAILED'))
    tail = r.stdout.strip().splitlines()[-1] if r.stdout.strip() else ''
    return failed, tail


def one(patch, props, tier, budget):
    name = os.path.basename(patch)
    if name in ('patch.diff', 'patch.rebased.diff'):
        name = os.path.basename(os.path.dirname(patch))
    scratch = tempfile.mkdtemp(prefix='mut-', dir='/dev/shm')
    try:
        os.makedirs(scratch + '/repo')
        shutil.copytree('/repo/src', scratch + '/repo/src')
        r = subprocess.run(['patch', '-p1', '-s', '--forward', '-i', patch],
                           cwd=scratch + '/repo', capture_output=True,
                           text=True)
        partial = False
        if r.returncode != 0:
            # the repository has moved on since the patch was written (fix:
            # commits): hunks for one server flavour may no longer apply.
            # What did apply is still a change worth running, and is marked.
            for root, _d, files in os.walk(scratch + '/repo/src'):
                for fn in files:
                    if fn.endswith(('.rej', '.orig')):
                        os.remove(os.path.join(root, fn))
            d = subprocess.run(['diff', '-rq', '/repo/src',
                                scratch + '/repo/src'], capture_output=True,
                               text=True)
            if not d.stdout.strip():
                return {'mutant': name,
                        'error': 'patch failed: ' + r.stdout[-200:]}
            partial = True
        failed, tail = suite_failures(scratch + '/repo/src')
        res = {'mutant': name, 'suite': tail, 'suite_same_as_baseline': None,
               'checks': {}, 'partially_applied': partial}
        res['failed'] = failed
        env = dict(os.environ, VERIF_REPO_SRC=scratch + '/repo/src',
                   VERIF_EVIDENCE_DIR=scratch + '/ev',
                   VERIF_REPLAY_DIR=scratch + '/replays',
                   VERIF_MIN_BUDGET_S='6', VERIF_MAX_REPORT='2',
                   VERIF_WORKERS=os.environ.get('MUT_WORKERS', '4'))
        for p in props:
            c = subprocess.run([VERIF + '/check', p, '--tier', tier],
                               cwd=VERIF, env=env, capture_output=True,
                               text=True, timeout=budget)
            sigs = [l.strip() for l in c.stdout.splitlines()
                    if l.startswith('  signature') and '(known)' not in l]
            res['checks'][p] = {'exit': c.returncode, 'signatures': sigs[:4]}
        return res
    finally:
        shutil.rmtree(scratch, ignore_errors=True)


def main():
    tier = os.environ.get('MUT_TIER', 'quick')
    only = sys.argv[1:]
    base_failed, base_tail = suite_failures('/repo/src')
    jobs = []
    for patch in sorted(glob.glob(VERIF + '/mutants/*.patch')) + \
            sorted(glob.glob(VERIF + '/seeded/*/patch.diff')):
        # (a patch that no longer applies to the repaired tree may have been
        # re-written against it by hand: same change, current context)
        reb = os.path.join(os.path.dirname(patch), 'patch.rebased.diff')
        if patch.endswith('patch.diff') and os.path.exists(reb):
            patch = reb
        head = open(patch).readline()
        m = re.search(r'(C\d\d)', head)
        meta = os.path.join(os.path.dirname(patch), 'meta.json')
        props = [m.group(1)] if m else []
        if not props:
            m2 = re.match(r'c(\d\d)_', os.path.basename(patch))
            if m2:
                props = ['C' + m2.group(1)]
        if os.path.exists(meta) and patch.endswith('.diff'):
            mj = json.load(open(meta))
            # its own property first, then whatever else was seen to catch it
            props = [mj['property']] + [p for p in mj.get('caught_by', [])
                                        if p != mj['property']]
        if only and not any(o in patch for o in only):
            continue
        jobs.append((patch, props))
    out = []
    with cf.ThreadPoolExecutor(max_workers=4) as ex:
        futs = [ex.submit(one, p, props, tier, 900) for p, props in jobs]
        for f in futs:
            r = f.result()
            if 'failed' in r:
                r['suite_same_as_baseline'] = r.pop('failed') == base_failed
            caught = [p for p, c in r.get('checks', {}).items()
                      if c['exit'] == 1]
            r['caught_by'] = caught
            print('%-34s suite_ok=%-5s caught_by=%s %s' % (
                r['mutant'], r.get('suite_same_as_baseline'), caught,
                r.get('error', '')), flush=True)
            out.append(r)
    os.makedirs(VERIF + '/evidence', exist_ok=True)
    if not only:
        with open(VERIF + '/evidence/sensitivity.json', 'w') as fh:
            json.dump({'baseline_suite': base_tail, 'tier': tier,
                       'mutants': out}, fh, indent=1)
    survived = [r['mutant'] for r in out
                if r.get('suite_same_as_baseline') and not r['caught_by']]
    print('suite-green mutants not caught:', survived)


if __name__ == '__main__':
    main()

#!/venv/bin/python
"""Regenerate MANIFEST.json from the property modules that exist."""
import importlib
import json
import os
import sys

HERE = os.path.dirname(os.path.dirname(os.path.abspath(__file__)))
sys.path.insert(0, HERE)

TITLES = {}
for line in open(os.path.join(HERE, 'properties.jsonl')):
    p = json.loads(line)
    TITLES[p['id']] = p['title']

NA = {}   # property -> reason, for properties deliberately not claimed

checks = []
missing = []
for pid in sorted(TITLES):
    path = os.path.join(HERE, 'dsim', 'props', pid.lower() + '.py')
    if not os.path.exists(path) or pid in NA:
        missing.append(pid)
        continue
    mod = importlib.import_module('dsim.props.' + pid.lower())
    checks.append({
        'property_id': pid,
        'quick_cmd': './check %s --tier quick' % pid,
        'thorough_cmd': './check %s --tier thorough' % pid,
        'evidence_file': 'evidence/%s.json' % pid,
        'replay_cmd_template': './check --replay {path}',
        'engine': 'dsim',
        'level_claimed': {
            'category': 'exploration',
            'text': mod.LEVEL_TEXT,
            'design_ref': 'DESIGN.md section 6 (%s)' % pid,
        },
        'level_note': mod.LEVEL_NOTE,
        'technique': mod.TECHNIQUE,
    })

man = {
    'version': 1,
    'setup_cmd': '/venv/bin/python -m compileall -q dsim dsim_main.py && '
                 '/venv/bin/python dsim_main.py --selftest',
    'hooks': {
        'guard': 'ENGINEIO_VERIF',
        'enable': 'no source hooks exist: every seam is a module attribute, '
                  'driver-dict entry, constructor argument or injected '
                  'gateway callable rebound by the simulator at run time; '
                  'checks import engineio from /repo/src',
        'baseline_off_cmd': 'cd /repo && /venv/bin/python -m pytest -q -p '
                            'no:cacheprovider --timeout=900 '
                            '--continue-on-collection-errors',
        'source_commits': [],
        'add_only': True,
    },
    'engines': [{
        'name': 'dsim',
        'path': 'dsim/',
        'serves_properties': [c['property_id'] for c in checks],
        'kind_free_text': 'deterministic discrete-event simulator: baton-'
                          'passed real threads + externally stepped asyncio '
                          'loop under one virtual clock and one choice tape; '
                          'real engineio servers/clients behind in-process '
                          'WSGI/ASGI gateways and fake network; seeded '
                          'fault injection; history oracles against '
                          'reference models; replay + minimisation',
    }],
    'checks': checks,
    'not_applicable': [
        {'property_id': pid,
         'reason': NA.get(pid, 'check not built yet in this session (see '
                               'DESIGN.md section 11 for the build order)')}
        for pid in missing],
    'notes': 'Exit codes: 0 held (KNOWN-FINDING lines allowed), 1 VIOLATION '
             '(replay-verified), 2 harness error. VERIF_SEED selects the '
             'seed family; VERIF_BUDGET_S / VERIF_WORKERS tune cost.',
}
with open(os.path.join(HERE, 'MANIFEST.json'), 'w') as f:
    json.dump(man, f, indent=1)
print('claimed:', [c['property_id'] for c in checks])
print('not claimed:', missing)

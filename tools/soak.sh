#!/bin/sh
# soak: every built check at several VERIF_SEEDs; prints only lines that matter
# usage: tools/soak.sh <first seed> <last seed> [tier] [props...]
a=${1:-10}; b=${2:-20}; tier=${3:-quick}; shift 3 2>/dev/null
props="$*"
[ -z "$props" ] && props=$(ls dsim/props/c*.py | sed 's/.*\/c\([0-9]*\)\.py/C\1/')
for sd in $(seq $a $b); do
  for p in $props; do
    out=$(VERIF_SEED=$sd ./check $p --tier $tier 2>&1); rc=$?
    echo "seed=$sd $p rc=$rc $(echo "$out" | grep "^$p $tier" )"
    if [ $rc -ne 0 ]; then echo "$out" | grep -v "^KNOWN\|(known)" | head -30; fi
  done
done

"""Oracles: constraints over a recorded History, written against what the
properties state (DESIGN section 5 gives the rules they obey)."""
from . import refmodel as R
from .kernel import TICK

REFUSED_TYPES = (0, 2, 6, 7, 8, 9)
EPS = 1e-6    # float noise from non-dyadic sweep intervals (T / n sessions)


def V(clause, sig, text):
    return {'clause': clause, 'sig': sig, 'text': text}


class Facts:
    """Per-session facts derived once from a History."""

    def __init__(self, h):
        self.h = h
        self.w = h.world
        self.impl = h.world.impl
        self.I = h.world.server.ping_interval
        self.T = h.world.server.ping_timeout
        self.end = h.final['now']
        self.monitor = h.plan.get('config', {}).get('monitor_clients',
                                                     True) is not False
        self.async_handlers = h.plan.get('config', {}).get(
            'async_handlers', True)
        self.sess = {}
        self.handler_sleep = sum(
            f.get('s', 0) for f in h.plan.get('app_opts', {}).get(
                'handler_faults', []) if f.get('action') == 'sleep')
        self.has_sleep = any(e.get('fault') == 'sleep'
                             for e in h.app.events)
        for e in h.app.events:
            sid = e['sid']
            s = self.sess.get(sid)
            if s is None:
                s = self.sess[sid] = {
                    'sid': sid, 'c': e['c'], 'events': [], 'connect': [],
                    'disconnect': [], 'message': [], 'accepted': None,
                    'client': None}
            s['events'].append(e)
            s[e['ev']].append(e)
            if e['ev'] == 'connect':
                s['accepted'] = e.get('outcome') in ('none', 'true')
                s['outcome'] = e.get('outcome')
        for c in h.clients:
            if c.sid and c.sid in self.sess:
                self.sess[c.sid]['client'] = c
        self._causes = {}

    # -- which websocket carries a session ----------------------------------
    def main_ws(self, sid):
        c = self.sess[sid]['client']
        if c is None:
            return None
        if c.open_ws is not None and c.sid == sid:
            return c.open_ws
        for u in c.upgrades:
            if u.get('ok'):
                return u['conn']
        return None

    def server_upgraded_conn(self, sid):
        """The upgrade socket on which the *server* saw 2probe then 5."""
        c = self.sess[sid]['client']
        if c is None:
            return None
        for u in c.upgrades:
            got = [d for (_, _, d) in u['conn'].recv_s]
            if got[:2] == ['2probe', '5']:
                return u['conn']
        return None

    # -- end causes ------------------------------------------------------------
    def causes(self, sid):
        if sid in self._causes:
            return self._causes[sid]
        h = self.h
        s = self.sess[sid]
        c = s['client']
        out = []
        maxsize = h.world.server.max_http_buffer_size
        if c is not None:
            for req in c.posts + c.raws:
                if req.method != 'POST' or req.seq_arrive is None:
                    continue
                if ('sid=' + sid) not in req.query:
                    continue
                declared = len(req.body) if req.declared is None \
                    else _int(req.declared)
                if declared is not None and declared > maxsize:
                    out.append(_cause('too_long', req.seq_arrive,
                                      req.t_arrive, True,
                                      {'server disconnect',
                                       'transport error'}))
                    continue
                try:
                    body = req.body[:declared].decode('utf-8') \
                        if declared is not None else None
                    pkts = R.ref_payload_decode(
                        body, h.world.app_opts.get('max_decode_packets', 16))
                except (R.RefError, UnicodeDecodeError, TypeError):
                    continue
                for (pt, d, cert) in pkts:
                    if pt == R.CLOSE:
                        out.append(_cause('client_close', req.seq_arrive,
                                          req.t_arrive, True,
                                          {'client disconnect'}))
                        break
                    if pt in REFUSED_TYPES or pt is None:
                        out.append(_cause('protocol_error', req.seq_arrive,
                                          req.t_arrive, True,
                                          {'server disconnect',
                                           'transport error',
                                           'client disconnect'}
                                          if pt is None else
                                          {'server disconnect',
                                           'transport error'}))
                        break
            ws = self.main_ws(sid)
            sws = self.server_upgraded_conn(sid)
            for conn in {id(x): x for x in (ws, sws) if x is not None
                         }.values():
                for (seq, t, item) in conn.arrivals:
                    if item[0] == 'close':
                        out.append(_cause('ws_close', seq, t, True,
                                          {'transport close'}))
                    elif item[1] == '1':
                        out.append(_cause('client_close', seq, t, True,
                                          {'client disconnect'}))
                    else:
                        d = item[1]
                        bad = False
                        if isinstance(d, str):
                            try:
                                R.ref_decode(d)
                            except R.RefError:
                                bad = True
                            if d and len(d) > maxsize:
                                bad = True
                        elif len(d) > maxsize:
                            bad = True
                        if bad:
                            out.append(_cause(
                                'bad_frame', seq, t, True,
                                {'transport close', 'transport error'}))
            # polls that can time out
            for req in c.polls:
                if req.seq_arrive is not None and req.status in (None, 400):
                    out.append(_cause(
                        'poll_timeout', None, req.t_arrive + self.I + self.T,
                        False, {'transport error'}))
        for a in h.world.api_calls:
            if a['name'] != 'disconnect' or a['seq_start'] is None:
                continue
            if a.get('sid') == sid or ('sid' not in a and sid in
                                       a.get('table_before', {})):
                out.append(_cause('app_disconnect', a['seq_start'],
                                  a['t_start'], True, {'server disconnect'},
                                  all_sessions='sid' not in a))
        # re-entrant disconnect from a handler fault
        for e in s['events']:
            if e.get('fault') == 'disconnect':
                out.append(_cause('app_disconnect', e['seq'], e['t'], True,
                                  {'server disconnect'}))
        # silence: a PING that got no PONG within T
        # (PONG times are *processing* times: identical to arrival times
        # unless a synchronous handler was made to sleep)
        pongs = self.pong_arrivals(sid)
        for (seq, t, pt, d) in h.world.qlog.get(sid, []):
            if pt != R.PING:
                continue
            if not any(t - EPS <= tp <= t + self.T + EPS for tp in pongs):
                later = [tp for tp in pongs if tp > t + self.T + EPS]
                out.append(_cause('silence', None, t + self.T, False,
                                  {'ping timeout', 'transport close',
                                   'transport error'},
                                  resumed=later[0] if later else None))
        self._causes[sid] = out
        return out

    def pong_arrivals(self, sid):
        """Server-side arrival times of PONG packets for this session."""
        s = self.sess[sid]
        c = s['client']
        out = []
        if c is None:
            return out
        for req in c.posts:
            if req.seq_arrive is None or ('sid=' + sid) not in req.query:
                continue
            try:
                if any(p.startswith('3') for p in
                       req.body.decode('utf-8').split(R.SEP)):
                    out.append(req.t_done if (self.has_sleep and
                                              req.t_done is not None)
                               else req.t_arrive)
            except UnicodeDecodeError:
                pass
        seen = set()
        for conn in (self.main_ws(sid), self.server_upgraded_conn(sid)):
            if conn is None or id(conn) in seen:
                continue
            seen.add(id(conn))
            for (seq, t, d) in conn.recv_s:
                if isinstance(d, str) and d.startswith('3'):
                    out.append(t)
        return sorted(out)


def _int(x):
    try:
        return int(x)
    except (TypeError, ValueError):
        return None


def _cause(kind, seq, t, immediate, reasons, **kw):
    d = {'kind': kind, 'seq': seq, 't': t, 'immediate': immediate,
         'reasons': reasons}
    d.update(kw)
    return d


# ===========================================================================
# C05  session events
# ===========================================================================

def check_session_events(h, f=None, expect_liveness=True):
    f = f or Facts(h)
    out = []
    impl = f.impl
    slack = 0.05 + f.handler_sleep
    for sid, s in f.sess.items():
        evs = s['events']
        # connect first, exactly once
        if evs[0]['ev'] != 'connect':
            out.append(V('connect-first', '%s|connect-first|%s' %
                         (impl, evs[0]['ev']),
                         'first event for %s is %s' % (sid, evs[0]['ev'])))
        if len(s['connect']) != 1:
            out.append(V('connect-once', '%s|connect-count' % impl,
                         '%d connect events for %s' % (len(s['connect']),
                                                       sid)))
        if not s['accepted']:
            later = [e for e in evs if e['ev'] != 'connect']
            if later:
                out.append(V('rejected-silent', '%s|rejected-then-%s' %
                             (impl, later[0]['ev']),
                             'session %s was rejected (%s) but later got %s'
                             % (sid, s.get('outcome'), later[0]['ev'])))
            continue
        nd = len(s['disconnect'])
        if nd > 1:
            rs = [e['arg'] for e in s['disconnect']]
            out.append(V('disconnect-once', '%s|double-disconnect|%s' %
                         (impl, '+'.join(sorted(set(map(str, rs))))),
                         'session %s got %d disconnect events %r at %r'
                         % (sid, nd, rs, [e['t'] for e in s['disconnect']])))
        causes = f.causes(sid)
        if nd == 0 and expect_liveness:
            due = _disconnect_due(f, causes, slack)
            if due is not None:
                cz, deadline = due
                blocked = _blocking_note(h)
                sig = '%s|missing-disconnect|%s' % (impl, cz['kind'])
                if cz.get('all_sessions') and _disconnect_all_stuck(h):
                    sig = '%s|disconnect-all-blocked' % impl
                out.append(V('disconnect-missing', sig,
                             'session %s (client %s): end cause %s at t=%.4f '
                             'but no disconnect event by t=%.4f (deadline '
                             '%.4f)%s' % (sid, s['c'], cz['kind'], cz['t'],
                                          f.end, deadline, blocked)))
        if nd >= 1:
            d = s['disconnect'][0]
            out.extend(_check_reason(f, sid, s, d, causes))
            # nothing after the disconnect event
            out.extend(_check_after_disconnect(f, sid, s, d))
        # containment
        for e in s['message']:
            if e.get('fault') == 'raise':
                if nd and not causes:
                    out.append(V('containment', '%s|message-raise-ended' %
                                 impl, 'message handler exception for %s '
                                 'was followed by a disconnect (%r) with no '
                                 'end cause' % (sid, s['disconnect'][0]['arg'])
                                 ))
        for e in s['disconnect'][:1]:
            if e.get('fault') == 'raise' and e['t'] < f.end - slack:
                st = h.final['table'].get(sid)
                if st is not None and not st['closed']:
                    out.append(V('containment', '%s|disconnect-raise-no-'
                                 'cleanup' % impl, 'disconnect handler '
                                 'exception for %s left the session open: %r'
                                 % (sid, st)))
    return out


def _disconnect_due(f, causes, slack):
    """Earliest cause whose detection deadline has passed; None if the run
    ended before any deadline."""
    best = None
    for cz in causes:
        if cz['kind'] == 'silence':
            if not f.monitor:
                continue
            deadline = cz['t'] - f.T + f.I + 3 * f.T + slack
            if cz.get('resumed') is not None and cz['resumed'] <= deadline:
                continue      # the peer answered again: not "stopped"
        elif cz['kind'] == 'poll_timeout':
            deadline = cz['t'] + slack
        else:
            deadline = cz['t'] + slack
        if deadline < f.end - 2 * TICK:
            if best is None or deadline < best[1]:
                best = (cz, deadline)
    return best


def _disconnect_all_stuck(h):
    """A server.disconnect() (all sessions) call that never returned."""
    return any(a['name'] == 'disconnect' and 'sid' not in a and
               a['seq_start'] is not None and a['seq_end'] is None
               for a in h.world.api_calls)


def _blocking_note(h):
    b = h.final.get('blocked') or []
    b = [x for x in b if 'service_task' not in x[0]]
    return ' [blocked: %s]' % b[:4] if b else ''


def _check_reason(f, sid, s, d, causes):
    out = []
    reason = d['arg']
    impl = f.impl
    occurred = [c for c in causes
                if (c['seq'] is not None and c['seq'] <= d['seq']) or
                (c['seq'] is None and c['t'] <= d['t'] + EPS)]
    allowed = set()
    for c in occurred:
        allowed |= c['reasons']
    if not occurred:
        out.append(V('disconnect-cause', '%s|disconnect-without-cause|%s' %
                     (impl, reason),
                     'session %s disconnected (%r at t=%.4f) but no end '
                     'cause had occurred' % (sid, reason, d['t'])))
        return out
    if reason not in allowed:
        out.append(V('disconnect-reason', '%s|wrong-reason|%s|causes=%s' % (
            impl, reason, '+'.join(sorted({c['kind'] for c in occurred}))),
            'session %s: reason %r names none of the causes that had '
            'occurred: %s' % (sid, reason,
                              [(c['kind'], c['t']) for c in occurred])))
        return out
    # first-cause rule: an immediate cause on a strictly earlier tick than
    # every other cause binds the reason
    if f.has_sleep:
        return out
    imm = [c for c in occurred if c['immediate']]
    if imm:
        first = min(imm, key=lambda c: (c['t'], c['seq']))
        others = [c for c in causes if c is not first]
        if all(o['t'] > first['t'] for o in others) and \
                reason not in first['reasons']:
            sig = '%s|not-first-cause|%s|first=%s' % (impl, reason,
                                                      first['kind'])
            if first.get('all_sessions') and _disconnect_all_stuck(f.h):
                sig = '%s|disconnect-all-blocked' % impl
            out.append(V('disconnect-reason', sig,
                         'session %s: first cause was %s at t=%.4f (all '
                         'others strictly later) but the reason is %r'
                         % (sid, first['kind'], first['t'], reason)))
    return out


def _check_after_disconnect(f, sid, s, d):
    out = []
    c = s['client']
    if c is None:
        return out
    sent = {}
    for m in c.sent_msgs:
        sent.setdefault(_key(m['val']), m)
    d_end = d.get('seq_end', d['seq'])
    for e in s['events']:
        if e['seq'] <= d['seq'] or e is d:
            continue
        if e['ev'] == 'connect':
            out.append(V('after-disconnect', '%s|connect-after-disconnect'
                         % f.impl, 'connect after disconnect for %s' % sid))
        elif e['ev'] == 'message':
            m = sent.get(_key(e['arg']))
            # (a message that raced a slow disconnect handler is grey: the
            # statement does not say whether the event is its start or end)
            if m is not None and m['seq'] > d_end:
                out.append(V('after-disconnect',
                             '%s|message-after-disconnect|%s' % (
                                 f.impl, m['via']),
                             'message %r for %s was sent by the client at '
                             't=%.4f, after the disconnect event at t=%.4f, '
                             'and still produced a message event' % (
                                 e['arg'], sid, m['t'], d['t'])))
    return out


def _key(v):
    if isinstance(v, (bytes, bytearray)):
        return ('b', bytes(v))
    if isinstance(v, (dict, list)):
        import json
        return ('j', json.dumps(v, sort_keys=True))
    return (type(v).__name__, v)


# ===========================================================================
# common run summary helpers
# ===========================================================================

def abstract_states(h):
    """Per-session abstract states visited (sampled at snapshots and end)."""
    out = set()
    for (_, _, snap) in h.snaps + [(0, 0, h.final['table'])]:
        for sid, st in snap.items():
            if st is None:
                continue
            q = st['qlen']
            qb = 0 if not q else (1 if q < 4 else 2)
            out.add('%s:%d%d%d%d:q%d' % (h.world.impl, st['upgraded'],
                                         st['upgrading'], st['closed'],
                                         st['connected'], qb))
    for c in h.clients:
        out.add('%s:c:%s:%s:%s' % (h.world.impl, c.transport,
                                   c._upg_phase(), c.session_over))
    return sorted(out)


def summary(h):
    return {'impl': h.world.impl, 'events': len(h.app.events),
            'requests': len(h.world.requests), 'ws': len(h.world.wsconns),
            'end': h.final['now']}


def outcome(h, violations, probes=None, nontrivial=True, extra=None):
    pr = dict(h.world.probes)
    pr.update(probes or {})
    return {
        'violations': violations,
        'probes': pr,
        'faults': dict(h.world.faults),
        'sim_s': h.final['now'],
        'digest': h.digest,
        'sched_digest': h.sched_digest,
        'states': abstract_states(h),
        'nontrivial': nontrivial,
        'sched': h.tape.recorded(),
        'summary': summary(h),
        'leaked': h.leaked,
        'extra': extra or {},
    }

"""Oracles: constraints over a recorded History, written against what the
properties state (DESIGN section 5 gives the rules they obey)."""
from . import refmodel as R
from .kernel import TICK

REFUSED_TYPES = (0, 2, 6, 7, 8, 9)
EPS0 = 1e-6   # float noise from non-dyadic sweep intervals (T / n sessions)
# Every time comparison of the oracles allows EPS.  It is EPS0 when computation
# takes no virtual time (all runs but the "stall" runs of line granularity);
# in a stall run threads were kept away from the CPU for up to
# kernel.stall_total seconds in all, and every bound, tie and order that is
# read off the clock is blurred by that much (Facts() sets it per run).
EPS = EPS0


def V(clause, sig, text):
    return {'clause': clause, 'sig': sig, 'text': text}


class Facts:
    """Per-session facts derived once from a History."""

    def __init__(self, h):
        self.h = h
        self.w = h.world
        self.impl = h.world.impl
        self.I = h.world.server.ping_interval
        self.T = h.world.server.ping_timeout
        self.end = h.final['now']
        self.monitor = h.plan.get('config', {}).get('monitor_clients',
                                                     True) is not False
        self.async_handlers = h.plan.get('config', {}).get(
            'async_handlers', True)
        self.sess = {}
        self.handler_sleep = sum(
            f.get('s', 0) for f in h.plan.get('app_opts', {}).get(
                'handler_faults', []) if f.get('action') == 'sleep')
        self.has_sleep = any(e.get('fault') == 'sleep'
                             for e in h.app.events)
        # a thread kept away from the CPU between two lines (stall runs of
        # line granularity) is time spent inside the server, like a
        # sleeping synchronous handler
        stall = getattr(h.world.k, 'stall_total', 0.0)
        if stall:
            self.handler_sleep += stall
            self.has_sleep = True
        for e in h.app.events:
            sid = e['sid']
            s = self.sess.get(sid)
            if s is None:
                s = self.sess[sid] = {
                    'sid': sid, 'c': e['c'], 'events': [], 'connect': [],
                    'disconnect': [], 'message': [], 'accepted': None,
                    'client': None}
            s['events'].append(e)
            s[e['ev']].append(e)
            if e['ev'] == 'connect':
                s['accepted'] = e.get('outcome') in ('none', 'true')
                s['outcome'] = e.get('outcome')
        for c in h.clients:
            if c.sid and c.sid in self.sess:
                self.sess[c.sid]['client'] = c
        self._causes = {}

    # -- which websocket carries a session ----------------------------------
    def main_ws(self, sid):
        c = self.sess[sid]['client']
        if c is None:
            return None
        if c.open_ws is not None and c.sid == sid:
            return c.open_ws
        for u in c.upgrades:
            if u.get('ok'):
                return u['conn']
        return None

    def server_upgraded_conn(self, sid):
        """The upgrade socket on which the *server* saw 2probe then 5."""
        c = self.sess[sid]['client']
        if c is None:
            return None
        done = []
        for u in c.upgrades:
            got = [d for (_, _, d) in u['conn'].recv_s]
            if got[:2] == ['2probe', '5']:
                done.append(u['conn'])
        # (when attempts overlapped, the server lets the first one that it
        # finished processing win: that is the socket it went on to use)
        for conn in done:
            if any(d != '3probe' for (_, _, d) in conn.sent_s):
                return conn
        # (nothing was written to any of them: the one the server went on
        # *reading* - a frame taken after the UPGRADE - is the carrier)
        for conn in done:
            if len(conn.recv_s) > 2:
                return conn
        return done[0] if done else None

    # -- end causes ------------------------------------------------------------
    def causes(self, sid):
        if sid in self._causes:
            return self._causes[sid]
        h = self.h
        s = self.sess[sid]
        c = s['client']
        out = []
        maxsize = h.world.server.max_http_buffer_size
        if c is not None:
            # (a session id is a bearer token: a POST from any client that
            # names it counts)
            for req in [r for cl in h.clients for r in cl.posts + cl.raws]:
                if req.method != 'POST' or req.seq_arrive is None:
                    continue
                if ('sid=' + sid) not in req.query:
                    continue
                declared = len(req.body) if req.declared is None \
                    else _int(req.declared)
                if declared is not None and declared > maxsize:
                    out.append(_cause('too_long', req.seq_arrive,
                                      req.t_arrive, True,
                                      {'server disconnect',
                                       'transport error'}))
                    continue
                try:
                    body = req.body[:declared].decode('utf-8') \
                        if declared is not None else None
                    pkts = R.ref_payload_decode(
                        body, h.world.app_opts.get('max_decode_packets', 16))
                except (R.RefError, UnicodeDecodeError, TypeError):
                    continue
                for (pt, d, cert) in pkts:
                    if pt == R.CLOSE:
                        out.append(_cause('client_close', req.seq_arrive,
                                          req.t_arrive, True,
                                          {'client disconnect'}))
                        break
                    if pt in REFUSED_TYPES or pt is None:
                        out.append(_cause('protocol_error', req.seq_arrive,
                                          req.t_arrive, True,
                                          {'server disconnect',
                                           'transport error',
                                           'client disconnect'}
                                          if pt is None else
                                          {'server disconnect',
                                           'transport error'}))
                        break
            # only sockets that carry the session *as the server sees it*:
            # a direct WebSocket open, or an upgrade socket on which the
            # server received 2probe and 5 (a socket whose handshake the
            # server never completed is C06's business, not an end cause)
            ws = c.open_ws if (c.open_ws is not None and c.sid == sid) \
                else None
            sws = self.server_upgraded_conn(sid)
            for conn in {id(x): x for x in (ws, sws) if x is not None
                         }.values():
                seq5 = None
                if conn is sws and conn is not ws:
                    seq5 = next((sq for (sq, _t, d) in conn.recv_s
                                 if d == '5'), None)
                for (seq, t, item) in conn.arrivals:
                    if item[0] == 'close':
                        out.append(_cause('ws_close', seq, t, True,
                                          {'transport close'}))
                    elif item[1] == '1':
                        out.append(_cause('client_close', seq, t, True,
                                          {'client disconnect'}))
                    else:
                        d = item[1]
                        bad = False
                        if isinstance(d, str):
                            try:
                                R.ref_decode(d)
                            except R.RefError:
                                bad = True
                            if d and len(d) > maxsize:
                                bad = True
                        elif len(d) > maxsize:
                            bad = True
                        if bad:
                            out.append(_cause(
                                'bad_frame', seq, t, True,
                                {'transport close', 'transport error'}))
            # polls that can time out
            for req in c.polls:
                if req.seq_arrive is not None and req.status in (None, 400):
                    out.append(_cause(
                        'poll_timeout', None, req.t_arrive + self.I + self.T,
                        False, {'transport error'}))
        for a in h.world.api_calls:
            if a['name'] != 'disconnect' or a['seq_start'] is None:
                continue
            if a.get('sid') == sid or ('sid' not in a and sid in
                                       a.get('table_before', {})):
                out.append(_cause('app_disconnect', a['seq_start'],
                                  a['t_start'], True, {'server disconnect'},
                                  all_sessions='sid' not in a))
            elif 'sid' not in a and s['connect'] and (
                    a['seq_end'] is None or
                    a['seq_end'] > s['connect'][0]['seq']):
                # (table_before is taken when the call is scheduled.)  A
                # session that was there when the call began is closed by
                # it; one that connects while disconnect() (all sessions) is
                # at work may or may not be caught by it
                out.append(_cause(
                    'app_disconnect', a['seq_start'], a['t_start'], True,
                    {'server disconnect'}, all_sessions=True,
                    optional=a['seq_start'] < s['connect'][0]['seq']))
        # re-entrant disconnect from a handler fault
        for e in s['events']:
            if e.get('fault') == 'disconnect':
                out.append(_cause('app_disconnect', e['seq'], e['t'], True,
                                  {'server disconnect'}))
        # silence: a PING that got no PONG within T
        # (PONG times are *processing* times: identical to arrival times
        # unless a synchronous handler was made to sleep)
        pongs = self.pong_arrivals(sid)
        pongs_maybe = self.pong_arrivals(sid, maybe=True)
        for (seq, t, pt, d) in h.world.qlog.get(sid, []):
            if pt != R.PING:
                continue
            blur = EPS - EPS0
            # (lower bound never blurred: a PONG cannot precede its PING)
            if not any(t - EPS0 <= tp <= t + self.T + EPS for tp in pongs):
                later = [tp for tp in pongs if tp > t + self.T + EPS]
                # (answered only by a PONG that may not have been processed:
                # the server may or may not time out)
                unsure = any(t - EPS0 <= tp <= t + self.T + EPS
                             for tp in pongs_maybe)
                out.append(_cause('silence', None, t + self.T, False,
                                  {'ping timeout', 'transport close',
                                   'transport error'},
                                  resumed=later[0] if later else None,
                                  optional=unsure))
            elif blur and not any(t - EPS0 <= tp <= t + self.T - blur
                                  for tp in pongs):
                # stall run: a PONG this close to the deadline may or may
                # not have been in time for the server
                out.append(_cause('silence', None, t + self.T - blur, False,
                                  {'ping timeout', 'transport close',
                                   'transport error'},
                                  resumed=None, optional=True))
        self._causes[sid] = out
        return out

    def _post_processes_pong(self, req):
        """Does the reference dispatcher reach a PONG in this POST body?  A
        body that is refused as a whole (too long, too many packets,
        undecodable) is not processed at all; a CLOSE or a refused packet
        type ends the processing of the body.  Where the reference is not
        certain about a packet in front of the PONG the answer is None
        (maybe)."""
        h = self.h
        try:
            declared = len(req.body) if req.declared is None \
                else _int(req.declared)
            if declared is None or \
                    declared > h.world.server.max_http_buffer_size:
                return False
            text = req.body[:declared].decode('utf-8')
        except UnicodeDecodeError:
            return False
        try:
            pk = R.ref_payload_decode(
                text, h.world.app_opts.get('max_decode_packets', 16))
        except R.RefError:
            try:
                parts = R.ref_payload_split(text)
            except R.RefError:
                return False
            if len(parts) > h.world.app_opts.get('max_decode_packets', 16):
                return False
            # some packet is undecodable: the code under test decodes the
            # whole body before it processes anything, but whether it fails
            # where the reference does is not certain
            return None if any(p.startswith('3') for p in parts) else False
        for (pt, d, cert) in pk:
            if cert != 'exact' or pt is None:
                return None if any(p2 == R.PONG for (p2, _d, _c) in pk) \
                    else False
            if pt == R.PONG:
                return True
            if pt not in (R.MESSAGE, R.UPGRADE):
                return False
        return False

    def pong_arrivals(self, sid, maybe=False):
        """Server-side arrival times of PONG packets for this session
        (``maybe``: including those the reference is not certain about)."""
        s = self.sess[sid]
        c = s['client']
        out = []
        if c is None:
            return out
        for req in c.posts:
            if req.seq_arrive is None or ('sid=' + sid) not in req.query:
                continue
            verdict = self._post_processes_pong(req)
            if verdict or (maybe and verdict is None):
                out.append(req.t_done if (self.has_sleep and
                                          req.t_done is not None)
                           else req.t_arrive)
        seen = set()
        for conn in (self.main_ws(sid), self.server_upgraded_conn(sid)):
            if conn is None or id(conn) in seen:
                continue
            seen.add(id(conn))
            for (seq, t, d) in conn.recv_s:
                if isinstance(d, str) and d.startswith('3'):
                    out.append(t)
        return sorted(out)


def _int(x):
    try:
        return int(x)
    except (TypeError, ValueError):
        return None


def _cause(kind, seq, t, immediate, reasons, **kw):
    d = {'kind': kind, 'seq': seq, 't': t, 'immediate': immediate,
         'reasons': reasons}
    d.update(kw)
    return d


# ===========================================================================
# C05  session events
# ===========================================================================

def check_session_events(h, f=None, expect_liveness=True):
    f = f or Facts(h)
    out = []
    for sid, s in f.sess.items():
        v = _session_events(h, f, sid, s, expect_liveness)
        if v:
            race = _disconnect_all_during_connect(h, f, sid, s)
            if race:
                # every anomaly of this session has the one mechanism
                v = [V('connect-first',
                       '%s|disconnect-all-during-connect' % f.impl, race)]
        out.extend(v)
    return out


def _disconnect_all_during_connect(h, f, sid, s):
    """Server.disconnect() without a sid that closed a session between its
    entry into the table and the call of its connect handler (threads, line
    granularity only): the application sees disconnect, then connect."""
    if not s['disconnect']:
        return None
    ed = s['disconnect'][0]
    ec = s['connect'][0] if s['connect'] else {'seq': 1 << 60}
    if ed['arg'] != 'server disconnect' or not (
            ed['seq'] < ec['seq'] or not s['accepted']):
        return None
    for a in h.world.api_calls:
        if a['name'] == 'disconnect' and 'sid' not in a and \
                a['seq_start'] is not None and a['seq_start'] < ed['seq'] \
                and (a['seq_end'] is None or a['seq_end'] > ed['seq']):
            return ('Server.disconnect() called at t=%.4f closed session %s '
                    'after _handle_connect had put it into the table and '
                    'before its connect handler had %s: the application got '
                    '%r' % (a['t_start'], sid,
                            'run (it never ran, the open request failed)'
                            if not s['connect'] else
                            'run' if ed['seq'] < ec['seq'] else
                            'rejected it (outcome %r)' % s.get('outcome'),
                            [e['ev'] for e in s['events']][:4]))
    return None


def _session_events(h, f, sid, s, expect_liveness):
    out = []
    impl = f.impl
    slack = 0.05 + f.handler_sleep
    for _once in (0,):
        evs = s['events']
        # connect first, exactly once
        if evs[0]['ev'] != 'connect':
            out.append(V('connect-first', '%s|connect-first|%s' %
                         (impl, evs[0]['ev']),
                         'first event for %s is %s' % (sid, evs[0]['ev'])))
        if len(s['connect']) != 1:
            out.append(V('connect-once', '%s|connect-count' % impl,
                         '%d connect events for %s' % (len(s['connect']),
                                                       sid)))
        if not s['accepted']:
            later = [e for e in evs if e['ev'] != 'connect']
            if later:
                out.append(V('rejected-silent', '%s|rejected-then-%s' %
                             (impl, later[0]['ev']),
                             'session %s was rejected (%s) but later got %s'
                             % (sid, s.get('outcome'), later[0]['ev'])))
            continue
        nd = len(s['disconnect'])
        if nd > 1:
            rs = [e['arg'] for e in s['disconnect']]
            out.append(V('disconnect-once', '%s|double-disconnect|%s' %
                         (impl, '+'.join(sorted(set(map(str, rs))))),
                         'session %s got %d disconnect events %r at %r'
                         % (sid, nd, rs, [e['t'] for e in s['disconnect']])))
        causes = f.causes(sid)
        if nd == 0 and expect_liveness:
            due = _disconnect_due(f, causes, slack)
            if due is not None:
                cz, deadline = due
                blocked = _blocking_note(h)
                sig = '%s|missing-disconnect|%s' % (impl, cz['kind'])
                if cz.get('all_sessions') and _disconnect_all_stuck(h):
                    sig = '%s|disconnect-all-blocked|%s' % (
                        impl, k1_reader_all(h, _stuck_all(h)))
                out.append(V('disconnect-missing', sig,
                             'session %s (client %s): end cause %s at t=%.4f '
                             'but no disconnect event by t=%.4f (deadline '
                             '%.4f)%s' % (sid, s['c'], cz['kind'], cz['t'],
                                          f.end, deadline, blocked)))
        if nd == 0 and sid not in h.final['table'] and \
                s['connect'][0]['t'] < f.end - slack:
            # sessions leave the table only after close(), which fires the
            # event first
            out.append(V('disconnect-missing',
                         '%s|dropped-from-table-without-disconnect' % impl,
                         'session %s (client %s) was accepted, never got a '
                         'disconnect event, and is no longer known to the '
                         'server at t=%.4f' % (sid, s['c'], f.end)))
        if nd >= 1:
            d = s['disconnect'][0]
            out.extend(_check_reason(f, sid, s, d, causes))
            # nothing after the disconnect event
            out.extend(_check_after_disconnect(f, sid, s, d))
        # containment
        for e in s['message']:
            if e.get('fault') == 'raise':
                # (a disconnect that is already explained by one of the
                # heartbeat findings is not the exception's doing)
                d0 = s['disconnect'][0] if nd else None
                explained = d0 is not None and d0['arg'] == \
                    'transport close' and (
                        _writer_timeout_tie(f, sid, d0) or
                        _reader_armed_at_upgrade(f, sid, d0) or
                        _writer_starved_after_upgrade(f, sid, d0))
                if nd and not causes and not explained:
                    out.append(V('containment', '%s|message-raise-ended' %
                                 impl, 'message handler exception for %s '
                                 'was followed by a disconnect (%r) with no '
                                 'end cause' % (sid, s['disconnect'][0]['arg'])
                                 ))
        for e in s['disconnect'][:1]:
            if e.get('fault') == 'raise' and e['t'] < f.end - slack:
                st = h.final['table'].get(sid)
                if st is not None and not st['closed']:
                    out.append(V('containment', '%s|disconnect-raise-no-'
                                 'cleanup' % impl, 'disconnect handler '
                                 'exception for %s left the session open: %r'
                                 % (sid, st)))
    return out


def _disconnect_due(f, causes, slack):
    """Earliest cause whose detection deadline has passed; None if the run
    ended before any deadline."""
    best = None
    for cz in causes:
        if cz.get('optional'):
            continue
        if cz['kind'] == 'silence':
            if not f.monitor:
                continue
            # PING at t_p = cz['t'] - T; property bound: last PONG + I + 3T
            # = t_p + 3T
            deadline = cz['t'] + 2 * f.T + slack
            if cz.get('resumed') is not None and cz['resumed'] <= deadline:
                continue      # the peer answered again: not "stopped"
        elif cz['kind'] == 'poll_timeout':
            deadline = cz['t'] + slack
        else:
            deadline = cz['t'] + slack
        if deadline < f.end - 2 * TICK:
            if best is None or deadline < best[1]:
                best = (cz, deadline)
    return best


def k1_reader(h, sid, t0, seq0=None):
    """close(wait=True) waits in queue.join() until somebody has taken what
    is queued for the session (K1).  Did a reader turn up after the call
    began (event number seq0 / time t0)?
    'no-reader': nobody read again - the wait is unbounded by design of
    close(wait=True); 'reader-refused': the client did poll again but a
    session that is already marked closed answers 400, so the CLOSE packet
    can never be fetched; 'despite-reader': the queue was read and the call
    still hung."""
    if sid is None:
        return 'no-reader'
    q = h.world.qlog.get(sid, [])
    ic = next((i for i, e in enumerate(q) if e[2] == R.CLOSE), None)
    if ic is not None and any(e[2] not in (None, R.CLOSE)
                              for e in q[ic + 1:]):
        # K12: a send() that raced with close() put its packet behind the
        # CLOSE packet and the end marker; no reader goes that far
        return 'packet-behind-close'

    def after(seq, t):
        if seq0 is not None and seq is not None:
            return seq > seq0
        return t is not None and t > t0 + EPS
    refused = False
    for r in h.world.requests:
        if r.kind != 'http' or r.method != 'GET' or \
                ('sid=' + sid) not in (r.query or '') or \
                r.seq_arrive is None:
            continue
        if r.status == 200 and after(r.seq_done, r.t_done):
            # (it must have been handed the CLOSE packet: a reader that was
            # served just before CLOSE was queued does not count)
            body = r.resp_body or b''
            if any(p in (b'1', b'"1"') or p.endswith((b'("1");', b'\\u001e1");'))
                   for p in body.split(b'\x1e')) or b'\\u001e1' in body:
                return 'despite-reader'
        elif r.status == 400 and (after(r.seq_arrive, r.t_arrive) or
                                  after(r.seq_done, r.t_done)):
            refused = True
    conns = [c for c in h.world.wsconns
             if ('sid=' + sid) in (c.req.query or '')]
    cl = h.client_of_sid.get(sid)
    if cl is not None and cl.open_ws is not None:
        conns.append(cl.open_ws)
    for conn in conns:
        if any(after(sq, t) and d == '1' for (sq, t, d) in conn.sent_s):
            return 'despite-reader'
    if seq0 is not None and any(
            e['ev'] == 'connect' and e['sid'] == sid and e['seq'] > seq0
            for e in h.app.events):
        # K10: disconnect() (all sessions) caught a session in the middle of
        # its open request; that request fails and nobody reads the queue
        return 'session-being-opened'
    return 'reader-refused' if refused else 'no-reader'


def k1_reader_all(h, a):
    """disconnect() without a sid hangs on a session whose queue nobody
    reads (threaded: it closes them one after the other, asyncio: all at
    once and waits for all).  Look at every session that got a CLOSE packet
    after the call began; the one that is not 'despite-reader' explains the
    hang."""
    kinds = set()
    for sid, q in h.world.qlog.items():
        # (the end marker is queued even when the CLOSE packet is not - a
        # session whose PING has timed out gets none)
        if any(pt in (R.CLOSE, None) and sq > a['seq_start']
               for (sq, _t, pt, _d) in q):
            kinds.add(k1_reader(h, sid, a['t_start'], a['seq_start']))
    for k in ('packet-behind-close', 'session-being-opened', 'no-reader',
              'reader-refused'):
        if k in kinds:
            return k
    return 'despite-reader' if kinds else 'no-reader'


def _disconnect_all_at(h, seq):
    """The disconnect() (all sessions) call that was at work at event seq."""
    for a in h.world.api_calls:
        if a['name'] == 'disconnect' and 'sid' not in a and \
                a['seq_start'] is not None and a['seq_start'] < seq and \
                (a['seq_end'] is None or a['seq_end'] > seq):
            return a
    return None


def _stuck_all(h):
    for a in h.world.api_calls:
        if a['name'] == 'disconnect' and 'sid' not in a and \
                a['seq_start'] is not None and a['seq_end'] is None:
            return a
    return None


def _disconnect_all_stuck(h):
    """A server.disconnect() (all sessions) call that never returned."""
    return any(a['name'] == 'disconnect' and 'sid' not in a and
               a['seq_start'] is not None and a['seq_end'] is None
               for a in h.world.api_calls)


def _blocking_note(h):
    b = h.final.get('blocked') or []
    b = [x for x in b if 'service_task' not in x[0]]
    return ' [blocked: %s]' % b[:4] if b else ''


def _check_reason(f, sid, s, d, causes):
    out = []
    reason = d['arg']
    impl = f.impl
    occurred = [c for c in causes
                if (c['seq'] is not None and c['seq'] <= d['seq']) or
                (c['seq'] is None and c['t'] <= d['t'] + EPS)]
    allowed = set()
    for c in occurred:
        allowed |= c['reasons']
    if not occurred and f.has_sleep and reason == 'transport close' and \
            _writer_idle_timeout(f, sid, d):
        # a synchronous handler that sleeps keeps the WebSocket reader from
        # processing the PONG behind it; the heartbeat stops and the writer
        # gives up after I + T without a packet: the application's doing
        return out
    if not occurred:
        sig = '%s|disconnect-without-cause|%s' % (impl, reason)
        if reason == 'transport close' and _writer_timeout_tie(f, sid, d):
            sig = '%s|ws-timeout-tie-pong-at-deadline' % impl
        elif reason == 'transport close' and _reader_armed_at_upgrade(
                f, sid, d):
            sig = '%s|ws-reader-timeout-armed-at-upgrade' % impl
        elif reason == 'transport close' and _writer_starved_after_upgrade(
                f, sid, d):
            sig = '%s|ws-writer-starved-by-stale-poll' % impl
        out.append(V('disconnect-cause', sig,
                     'session %s disconnected (%r at t=%.4f) but no end '
                     'cause had occurred' % (sid, reason, d['t'])))
        return out
    if reason not in allowed:
        out.append(V('disconnect-reason', '%s|wrong-reason|%s|causes=%s' % (
            impl, reason, '+'.join(sorted({c['kind'] for c in occurred}))),
            'session %s: reason %r names none of the causes that had '
            'occurred: %s' % (sid, reason,
                              [(c['kind'], c['t']) for c in occurred])))
        return out
    # first-cause rule: an immediate cause on a strictly earlier tick than
    # every other cause binds the reason
    if f.has_sleep:
        return out
    cl = s.get('client')
    if cl is not None and cl.spec.get('poll', {}).get('extra'):
        # a client with a second long-poll open is not conformant: that poll
        # competes with the WebSocket writer for the queue, end marker
        # included, and the server can learn of an end late (cf. K11)
        return out
    imm = [c for c in occurred if c['immediate'] and not c.get('optional')]
    if imm:
        first = min(imm, key=lambda c: (c['t'], c['seq']))
        others = [c for c in causes if c is not first]
        if all(o['t'] > first['t'] + (EPS - EPS0) for o in others) and \
                reason not in first['reasons']:
            sig = '%s|not-first-cause|%s|first=%s' % (impl, reason,
                                                      first['kind'])
            slow = _disconnect_all_at(f.h, d['seq'])
            if first.get('all_sessions') and slow is not None:
                # disconnect() closes the sessions one after the other; while
                # it waits for the queue of one of them to be read (K1) the
                # others stay open and can end for other reasons
                sig = '%s|disconnect-all-blocked|%s' % (
                    impl, k1_reader_all(f.h, slow))
            out.append(V('disconnect-reason', sig,
                         'session %s: first cause was %s at t=%.4f (all '
                         'others strictly later) but the reason is %r'
                         % (sid, first['kind'], first['t'], reason)))
    return out


def _writer_timeout_tie(f, sid, d):
    """A WebSocket read/write wait of I + T expired on the very instant a
    PONG that was *exactly* at its deadline arrived (reader: the wait began
    at the previous PONG, and the PING came I later) or on the instant the
    PING following such a PONG was produced (writer: the wait began when it
    took the previous PING)."""
    q = f.h.world.qlog.get(sid, [])
    pings = [t for (_s, t, pt, _d) in q if pt == R.PING]
    pongs = f.pong_arrivals(sid)
    for tp in pings:
        for ta in pongs:
            if abs(ta - (tp + f.T)) <= EPS:
                if abs(d['t'] - ta) <= EPS or \
                        abs(d['t'] - (ta + f.I)) <= EPS:
                    return True
    return False


def _reader_armed_at_upgrade(f, sid, d):
    """asyncio: the WebSocket read wait (I + T) is armed when the upgrade
    completes; the PONG for the previous PING may have travelled by POST, so
    the first frame on the socket can legitimately be due later than that."""
    conn = f.server_upgraded_conn(sid)
    if conn is None:
        return False
    t5 = next((t for (_s, t, dd) in conn.recv_s if dd == '5'), None)
    if t5 is None:
        return False
    later = [t for (_s, t, dd) in conn.recv_s if t > t5 + EPS]
    return not later and abs(d['t'] - (t5 + f.I + f.T)) <= EPS


def _writer_idle_timeout(f, sid, d):
    """The session's WebSocket was closed by the server exactly I + T after
    the last packet it wrote on it."""
    for conn in (f.main_ws(sid), f.server_upgraded_conn(sid)):
        if conn is None or not conn.sent_s:
            continue
        last = max(t for (_s, t, _d) in conn.sent_s if t <= d['t'] + EPS)
        if abs((d['t'] - last) - (f.I + f.T)) <= EPS + f.handler_sleep:
            return True
    return False


def _writer_starved_after_upgrade(f, sid, d):
    """The WebSocket writer waits I + T for a packet, counted from the
    completion of the upgrade or from the last packet it wrote.  A client
    that kept a second long-poll open across the upgrade (not conformant)
    receives the next PING through that poll: the writer sees nothing for
    I + T and closes the socket of a session that answers every PING."""
    conn = f.server_upgraded_conn(sid)
    c = f.sess[sid]['client']
    if conn is None or c is None:
        return False
    t5 = next((t for (_s, t, dd) in conn.recv_s if dd == '5'), None)
    if t5 is None:
        return False
    wrote = [t for (_s, t, _d) in conn.sent_s if t5 - EPS <= t < d['t'] - EPS]
    t0 = max(wrote) if wrote else t5
    if abs(d['t'] - (t0 + f.I + f.T)) > EPS + (f.handler_sleep or 0):
        return False
    # a poll that was answered after the upgrade had completed
    return any(r.t_done is not None and r.t_done > t5 + EPS and
               r.status == 200 for r in c.polls)


def _check_after_disconnect(f, sid, s, d):
    out = []
    c = s['client']
    if c is None:
        return out
    sent = {}
    for m in c.sent_msgs:
        sent.setdefault(_key(m['val']), m)
    d_end = d.get('seq_end', d['seq'])
    for e in s['events']:
        if e['seq'] <= d['seq'] or e is d:
            continue
        if e['ev'] == 'connect':
            out.append(V('after-disconnect', '%s|connect-after-disconnect'
                         % f.impl, 'connect after disconnect for %s' % sid))
        elif e['ev'] == 'message':
            m = sent.get(_key(e['arg']))
            # (a message that raced a slow disconnect handler is grey: the
            # statement does not say whether the event is its start or end)
            if m is not None and m['seq'] > d_end:
                out.append(V('after-disconnect',
                             '%s|message-after-disconnect|%s' % (
                                 f.impl, m['via']),
                             'message %r for %s was sent by the client at '
                             't=%.4f, after the disconnect event at t=%.4f, '
                             'and still produced a message event' % (
                                 e['arg'], sid, m['t'], d['t'])))
    return out


def _key(v):
    if isinstance(v, (bytes, bytearray)):
        return ('b', bytes(v))
    if isinstance(v, (dict, list)):
        import json
        return ('j', json.dumps(v, sort_keys=True))
    return (type(v).__name__, v)


# ===========================================================================
# common run summary helpers
# ===========================================================================

def abstract_states(h):
    """Per-session abstract states visited (sampled at snapshots and end)."""
    out = set()
    for (_, _, snap) in h.snaps + [(0, 0, h.final['table'])]:
        for sid, st in snap.items():
            if st is None:
                continue
            q = st['qlen']
            qb = 0 if not q else (1 if q < 4 else 2)
            out.add('%s:%d%d%d%d:q%d' % (h.world.impl, st['upgraded'],
                                         st['upgrading'], st['closed'],
                                         st['connected'], qb))
    for c in h.clients:
        out.add('%s:c:%s:%s:%s' % (h.world.impl, c.transport,
                                   c._upg_phase(), c.session_over))
    return sorted(out)


def summary(h):
    return {'impl': h.world.impl, 'events': len(h.app.events),
            'requests': len(h.world.requests), 'ws': len(h.world.wsconns),
            'end': h.final['now']}


def outcome(h, violations, probes=None, nontrivial=True, extra=None):
    pr = dict(h.world.probes)
    pr.update(probes or {})
    return {
        'violations': violations,
        'probes': pr,
        'faults': dict(h.world.faults, **h.world.k.line_faults()),
        'sim_s': h.final['now'],
        'digest': h.digest,
        'sched_digest': h.sched_digest,
        'states': abstract_states(h),
        'nontrivial': nontrivial,
        'sched': h.tape.recorded(),
        'summary': summary(h),
        'leaked': h.leaked,
        'extra': extra or {},
    }


# ===========================================================================
# C03  server -> client delivery
# ===========================================================================

def _client_msgs(c):
    """MESSAGE packets the client received: (order key, rec)."""
    return [r for r in c.recv if r['ptype'] == R.MESSAGE]


def _session_faulted(h, f, sid, c):
    """True if something that may legitimately lose data hit this session."""
    if c.stopped or c.session_over:
        return True
    if f.causes(sid):
        return True
    for fl in h.plan.get('faults', []):
        if fl.get('c') == c.idx:
            return True
    if any(r.lost for r in h.world.requests if r.cidx == c.idx):
        return True
    # somebody else read this session (a session id is a bearer token):
    # what they were handed is not in this client's receive log
    for o in h.clients:
        if o is c:
            continue
        for r in o.raws:
            if ('sid=' + sid) in r.query and r.method == 'GET' and \
                    r.status in (200, None):
                return True
    return False


def check_delivery(h, f=None):
    f = f or Facts(h)
    out = []
    impl = f.impl
    sends_by_sid = {}
    for rec in h.app_sends:
        sends_by_sid.setdefault(rec['sid'], []).append(rec)
    all_keys = {}
    for rec in h.app_sends:
        all_keys.setdefault(_key(rec['val']), []).append(rec)
    for sid, s in f.sess.items():
        c = s['client']
        if c is None or not s['accepted']:
            continue
        sends = sends_by_sid.get(sid, [])
        mine = {}
        for rec in sends:
            mine.setdefault(_key(rec['val']), []).append(rec)
        got = _client_msgs(c)
        seen = {}
        for r in got:
            k = _key(r['data'])
            if isinstance(r['data'], str) and \
                    r['data'].startswith('reentrant'):
                continue
            if k not in all_keys:
                out.append(V('delivery-integrity', '%s|unknown-payload|%s' %
                             (impl, r['chan']),
                             'client %d received %r on %s, which no send '
                             'carried' % (c.idx, _short(r['data']),
                                          r['chan'])))
                continue
            if k not in mine:
                out.append(V('no-crosstalk', '%s|crosstalk|%s' % (impl,
                                                                   r['chan']),
                             'client %d (sid %s) received %r which was sent '
                             'to %s' % (c.idx, sid, _short(r['data']),
                                        all_keys[k][0]['sid'])))
                continue
            if k in seen and len(mine[k]) < 2:
                out.append(V('at-most-once', '%s|duplicate|%s+%s' % (
                    impl, seen[k]['chan'], r['chan']),
                    'client %d received %r twice: on %s#%s and %s#%s' % (
                        c.idx, _short(r['data']), seen[k]['chan'],
                        seen[k]['ref'], r['chan'], r['ref'])))
            seen.setdefault(k, r)
        out.extend(_check_order(f, c, sid, got, mine))
        out.extend(_check_noop_rule(f, c, sid))
        out.extend(_check_early_switch(f, c, sid))
        out.extend(_check_drain(f, h, c, sid, sends, seen))
        if not _session_faulted(h, f, sid, c):
            out.extend(_check_complete(f, h, c, sid, sends, seen))
    return out


def _short(v):
    r = repr(v)
    return r if len(r) < 50 else r[:47] + '...'


def _send_before(a, b):
    """Binding send order: a returned before b started."""
    return a['seq_end'] is not None and b['seq_start'] is not None and \
        a['seq_end'] < b['seq_start']


def _check_order(f, c, sid, got, mine):
    out = []
    # contexts inside which the wire order is binding
    ctx = {}
    for r in got:
        k = _key(r['data'])
        if k not in mine or len(mine[k]) != 1:
            continue
        ctx.setdefault((r['chan'], r['ref']), []).append((r['pos'], r,
                                                          mine[k][0]))
    polls = {req.rid: req for req in c.polls}
    for key, items in ctx.items():
        items.sort(key=lambda x: x[0])
        for i in range(len(items)):
            for j in range(i + 1, len(items)):
                if _send_before(items[j][2], items[i][2]):
                    out.append(V('order', '%s|order-within|%s' % (f.impl,
                                                                  key[0]),
                                 'client %d: %r delivered before %r inside '
                                 '%s#%s although it was sent after it' % (
                                     c.idx, _short(items[i][1]['data']),
                                     _short(items[j][1]['data']), key[0],
                                     key[1])))
    # successive non-overlapping polls
    plist = sorted([(polls[k[1]], v) for k, v in ctx.items()
                    if k[0] == 'poll' and k[1] in polls],
                   key=lambda x: x[0].seq_issue)
    for a in range(len(plist)):
        for b in range(a + 1, len(plist)):
            ra, rb = plist[a][0], plist[b][0]
            if ra.seq_resp is None or ra.seq_resp > rb.seq_issue:
                continue     # overlapping: exempt
            for (_, r1, s1) in plist[a][1]:
                for (_, r2, s2) in plist[b][1]:
                    if _send_before(s2, s1):
                        out.append(V('order', '%s|order-across-polls' %
                                     f.impl,
                                     'client %d: %r arrived in poll %d, '
                                     'before %r in the later poll %d, '
                                     'although sent after it' % (
                                         c.idx, _short(r1['data']), ra.rid,
                                         _short(r2['data']), rb.rid)))
    return out


def _check_noop_rule(f, c, sid):
    out = []
    for req in c.polls:
        if req.status != 200 or req.seq_resp is None:
            continue
        ph = getattr(req, 'upg_phase', 'none')
        msgs = [r for r in c.recv if r['chan'] == 'poll' and
                r['ref'] == req.rid and r['ptype'] == R.MESSAGE]
        if not msgs:
            continue
        u = None
        for cand in c.upgrades:
            if cand['seq_start'] <= req.seq_issue and \
                    (cand.get('seq_end') is None or
                     req.seq_issue <= cand['seq_end'] or cand.get('ok')):
                u = cand
        if u is None:
            continue
        hs = _server_handshake(u['conn']) if ph == 'done:ok' else None
        if ph == 'sent5' or (
                hs and hs[0] and req.seq_arrive is not None and
                hs[1] < req.seq_arrive):
            # (issued after the client sent UPGRADE, and for a client that
            # considers the upgrade done the moment it has: reaching the
            # server after the server had read that UPGRADE; from there on
            # the session is either still held or already on WebSocket)
            out.append(V('one-transport', '%s|message-on-poll-after-upgrade'
                         % f.impl,
                         'client %d: poll %d was issued after the client '
                         'sent UPGRADE and still carried %d message(s): %r'
                         % (c.idx, req.rid, len(msgs),
                            _short(msgs[0]['data']))))
        elif ph == 'probed':
            nxt = u.get('seq_after_probe') or u.get('seq_end')
            # (the handler of an earlier, failed attempt that the server was
            # still winding down when this handshake began clears the hold
            # on its way out; only clients that open a new upgrade socket
            # before the server has seen the old one close get there)
            wound_down_late = any(
                o is not u and o['conn'].req.seq_done is not None and
                u['conn'].req.seq_arrive is not None and
                o['conn'].req.seq_done > u['conn'].req.seq_arrive
                for o in c.upgrades) or any(
                # (likewise the handler of somebody else's socket for this
                # session that fails while this handshake is under way)
                r.kind == 'ws' and ('sid=' + sid) in (r.query or '') and
                r.seq_done is not None and
                u['conn'].req.seq_arrive is not None and
                r.seq_done > u['conn'].req.seq_arrive
                for cl in f.h.clients for r in cl.raws)
            if nxt is not None and req.seq_resp < nxt and \
                    not wound_down_late:
                out.append(V('one-transport', '%s|message-on-poll-during-'
                             'handshake' % f.impl,
                             'client %d: poll %d lived entirely between '
                             '3probe and the client\'s next step on the '
                             'upgrade socket but carried %r' % (
                                 c.idx, req.rid, _short(msgs[0]['data']))))
    return out


def _check_early_switch(f, c, sid):
    out = []
    for u in c.upgrades:
        conn = u['conn']
        seq5 = None
        for (s, t, d) in conn.recv_s:
            if d == '5':
                seq5 = s
                break
        for (s, t, d) in conn.sent_s:
            is_msg = isinstance(d, (bytes, bytearray)) or \
                (isinstance(d, str) and d.startswith('4'))
            if is_msg and (seq5 is None or s < seq5):
                out.append(V('no-early-switch', '%s|message-before-upgrade'
                             % f.impl,
                             'client %d: upgrade socket %d carried %r before '
                             'the server had received UPGRADE on it' % (
                                 c.idx, conn.wid, _short(d))))
                break
    return out


def _accepted(rec):
    """A send counts as accepted if the session was live when it returned."""
    if rec['seq_end'] is None or rec.get('exc'):
        return False
    b, a = rec.get('before'), rec.get('after')
    if b is None or b['closed'] or b['closing']:
        return False
    if a is None or a['closed'] or a['closing']:
        return False
    return True


def _check_drain(f, h, c, sid, sends, seen):
    out = []
    if c.upgrades or c.open_ws is not None:
        return out
    polls = [r for r in c.polls]
    for i, req in enumerate(polls):
        if req.status != 200 or req.seq_arrive is None or \
                req.seq_done is None:
            continue
        if getattr(req, 'poll_out_at_issue', 1) != 0 or \
                not getattr(req, 'processed', False):
            continue
        # no other poll may overlap this one
        if any(o is not req and o.seq_issue < req.seq_resp and
               (o.seq_resp is None or o.seq_resp > req.seq_issue)
               for o in polls if req.seq_resp is not None):
            continue
        if any(o.method == 'GET' and ('sid=' + sid) in o.query for o in
               c.raws):
            continue
        for rec in sends:
            if not _accepted(rec) or rec['t_end'] >= req.t_arrive - EPS:
                continue
            k = _key(rec['val'])
            r = seen.get(k)
            if r is not None and (r['chan'] != 'poll' or
                                  r['ref'] != req.rid):
                # delivered elsewhere: fine if that was an earlier response
                other = h.world.requests[r['ref']] \
                    if r['chan'] == 'poll' and \
                    r['ref'] < len(h.world.requests) else None
                if other is not None and other.seq_done is not None and \
                        other.seq_done < req.seq_arrive:
                    continue
                if r['chan'] != 'poll':
                    continue
            if r is not None and r['ref'] == req.rid:
                continue
            out.append(V('drain', '%s|poll-left-message-behind' % f.impl,
                         'client %d: poll %d reached the server at t=%.4f '
                         'but did not return %r, accepted at t=%.4f and not '
                         'handed over before' % (c.idx, req.rid,
                                                 req.t_arrive,
                                                 _short(rec['val']),
                                                 rec['t_end'])))
            break
    return out


def _check_complete(f, h, c, sid, sends, seen):
    out = []
    if not c.autopoll or c.poll_stop is not None:
        return out
    settle = 1.0 + c.poll_gap * 4
    for rec in sends:
        if not _accepted(rec):
            continue
        if rec['t_end'] > f.end - settle:
            continue
        k = _key(rec['val'])
        if k in seen:
            continue
        if isinstance(rec['val'], str) and rec['val'].startswith(
                'reentrant'):
            continue
        ph = [u for u in c.upgrades]
        shape = 'polling'
        if c.open_ws is not None:
            shape = 'websocket'
        elif ph:
            shape = 'upgrade-' + ('ok' if any(u.get('ok') for u in ph)
                                  else 'failed')
        out.append(V('complete', '%s|lost-message|%s' % (f.impl, shape),
                     'client %d (sid %s, %s): %r was accepted at t=%.4f, '
                     'the session stayed open and the client kept reading '
                     'until t=%.4f, but it never arrived' % (
                         c.idx, sid, shape, _short(rec['val']),
                         rec['t_end'], f.end)))
        break
    return out


# ===========================================================================
# C04  client -> server dispatch
# ===========================================================================

def check_dispatch(h, f=None):
    f = f or Facts(h)
    out = []
    impl = f.impl
    limit = h.world.app_opts.get('max_decode_packets', 16)
    maxsize = h.world.server.max_http_buffer_size
    for sid, s in f.sess.items():
        c = s['client']
        if c is None or not s['accepted']:
            continue
        causes = f.causes(sid)
        first_end = min([cz['t'] for cz in causes], default=None)
        units = []      # (kind, ref, t_arrive, seq_arrive, [payload...], obj)
        optional = []   # payloads that may or may not produce an event
        grey_units = 0  # bodies the reference does not decide
        for req in c.posts + [r for r in c.raws if r.method == 'POST']:
            if req.seq_arrive is None or ('sid=' + sid) not in req.query:
                continue
            declared = len(req.body) if req.declared is None \
                else _int(req.declared)
            exp = None
            if declared is None or declared > maxsize:
                exp = []
            else:
                try:
                    pk = R.ref_payload_decode(
                        req.body[:declared].decode('utf-8'), limit)
                except (R.RefError, UnicodeDecodeError):
                    exp = []
                    pk = None
                if pk is not None:
                    out.extend(_check_refused_type(
                        f, h, sid, s, req, pk,
                        min([cz['t'] for cz in causes
                             if cz['seq'] != req.seq_arrive],
                            default=None)))
                    exp = []
                    grey = False
                    after_close = False
                    for (pt, d, cert) in pk:
                        if cert != 'exact' or pt is None:
                            grey = True
                            break
                        if pt == R.MESSAGE:
                            if after_close:
                                optional.append(d)   # rule 1: 0 or 1 event
                            else:
                                exp.append(d)
                        elif pt in (R.PONG, R.UPGRADE):
                            continue
                        elif pt == R.CLOSE:
                            after_close = True
                        else:
                            break       # refused type terminates the body
                    if grey:
                        grey_units += 1
                        continue
            units.append(('post', req.rid, req.t_arrive, req.seq_arrive,
                          exp, req))
        conns = []
        for conn in (f.main_ws(sid), f.server_upgraded_conn(sid)):
            if conn is not None and conn not in conns:
                conns.append(conn)
        for conn in conns:
            started = conn is c.open_ws
            exp = []
            ws_closed = False
            for (sq, t, d) in conn.recv_s:
                if not started:
                    if d == '5':
                        started = True
                    continue
                try:
                    pt, val, cert = R.ref_decode(d)
                except R.RefError:
                    break           # undecodable frame: handler gives up
                if isinstance(d, (str, bytes)) and len(d) > maxsize:
                    break
                if cert != 'exact':
                    exp = None
                    break
                if pt == R.MESSAGE:
                    if ws_closed:
                        optional.append(val)
                    else:
                        exp.append((val, t, sq))
                elif pt == R.CLOSE:
                    ws_closed = True
            if exp is None:
                continue
            units.append(('ws', conn.wid, None, None, exp, conn))
        events = list(s['message'])
        used = [False] * len(events)
        dsc = s['disconnect'][0] if s['disconnect'] else None
        for (kind, ref, t_arr, seq_arr, exp, obj) in units:
            idxs = []
            for item in exp:
                val, t_item, sq_item = (item if kind == 'ws'
                                        else (item, t_arr, seq_arr))
                hit = [i for i, e in enumerate(events)
                       if not used[i] and R.same_value(e['arg'], val)]
                live = (first_end is None or t_item < first_end - EPS) and \
                    (dsc is None or sq_item < dsc['seq'])
                if not hit:
                    n_same = sum(
                        1 for (k2, _r, _t, _s, ex2, _o) in units
                        for it2 in ex2
                        if R.same_value(it2[0] if k2 == 'ws' else it2, val))
                    if live and n_same == 1:
                        loose = [e for e in events
                                 if _loosely_equal(e['arg'], val)]
                        why = 'changed-payload' if loose else 'lost'
                        out.append(V('dispatch-exactly-once',
                                     '%s|%s|%s' % (impl, why, kind),
                                     'session %s: %s %s carried MESSAGE %r '
                                     'at t=%.4f (session live) but %s' % (
                                         sid, kind, ref, _short(val), t_item,
                                         'the handler got %r' % _short(
                                             loose[0]['arg']) if loose else
                                         'no message event fired')))
                    continue
                used[hit[0]] = True
                idxs.append(hit[0])
            # (order is judged on payloads that occur once in the run)
            def _uniq(i):
                return sum(1 for e2 in events
                           if R.same_value(e2['arg'], events[i]['arg'])) == 1
            idxs = [i for i in idxs if _uniq(i)]
            if not f.async_handlers and idxs != sorted(idxs):
                out.append(V('dispatch-order', '%s|out-of-order|%s' % (
                    impl, kind), 'session %s: synchronous handlers saw the '
                    'messages of %s %s in order %r' % (sid, kind, ref,
                                                       idxs)))
        sent_keys = set()
        for m in c.sent_msgs:
            sent_keys.add(_key(m['val']))
        for i, e in enumerate(events):
            if used[i] or grey_units:
                continue
            opt = [j for j, v in enumerate(optional)
                   if R.same_value(v, e['arg'])]
            if opt:
                del optional[opt[0]]
                continue
            # an event nobody asked for
            dup = any(R.same_value(e['arg'], (it[0] if k_ == 'ws' else it))
                      for (k_, _r, _t, _s, ex_, _o) in units for it in ex_)
            if dup:
                out.append(V('dispatch-exactly-once',
                             '%s|duplicate-event' % impl,
                             'session %s: message event %r at t=%.4f fired '
                             'more often than the MESSAGE was received' % (
                                 sid, _short(e['arg']), e['t'])))
                continue
            out.append(V('dispatch-spurious', '%s|spurious-event' % impl,
                         'session %s: message event %r at t=%.4f matches no '
                         'MESSAGE the reference dispatcher would deliver '
                         '(undecodable/over-limit body, packet after CLOSE, '
                         'or changed payload)' % (sid, _short(e['arg']),
                                                  e['t'])))
    return out


def _check_refused_type(f, h, sid, s, req, pk, first_end):
    """A refused type in a POST body to a live session: the request fails
    (400) and the session ends."""
    out = []
    bad = None
    for (pt, d, cert) in pk:
        if cert != 'exact' or pt is None:
            return out
        if pt == R.CLOSE:
            return out
        if pt in REFUSED_TYPES:
            bad = pt
            break
    if bad is None:
        return out
    if first_end is not None and first_end <= req.t_arrive + EPS:
        return out          # the session was already ending
    if req.t_arrive > f.end - 0.5 - f.handler_sleep:
        return out
    if req.status is None:
        stuck = [b for b in (h.final.get('blocked') or [])
                 if b[0] == 'W%d' % req.rid]
        if f.impl == 'asyncio':
            stuck = [1]
        out.append(V('refused-type-fails-request',
                     '%s|refused-type-post-never-answered|%s' % (
                         f.impl, k1_reader(h, sid, req.t_arrive, req.seq_arrive)),
                     'session %s: POST %d carried packet type %d at t=%.4f; '
                     'the request was still unanswered at t=%.4f%s' % (
                         sid, req.rid, bad, req.t_arrive, f.end,
                         ' (worker blocked in %s)' % stuck[0][1]
                         if stuck and stuck != [1] else '')))
    elif req.status != 400:
        out.append(V('refused-type-fails-request',
                     '%s|refused-type-accepted|type=%d' % (f.impl, bad),
                     'session %s: POST %d carried packet type %d to a live '
                     'session and was answered %s instead of 400' % (
                         sid, req.rid, bad, req.status)))
    if req.status is not None and not s['disconnect']:
        out.append(V('refused-type-ends-session',
                     '%s|refused-type-session-kept|type=%d' % (f.impl, bad),
                     'session %s: POST %d carried packet type %d but the '
                     'session got no disconnect event' % (sid, req.rid,
                                                          bad)))
    return out


def _loosely_equal(a, b):
    try:
        if a == b:
            return True
        if isinstance(a, (bytes, bytearray)) and isinstance(b, str):
            return bytes(a) == b.encode()
        if isinstance(b, (bytes, bytearray)) and isinstance(a, str):
            return bytes(b) == a.encode()
        return str(a) == str(b)
    except Exception:
        return False


# ===========================================================================
# C06  upgrade handshake
# ===========================================================================

def _server_handshake(conn):
    """(ok, seq_of_completion): did the *server* see 2probe, send 3probe and
    then see 5, in that order, on this socket?"""
    r = conn.recv_s
    sent = conn.sent_s
    if len(r) < 2 or r[0][2] != '2probe' or r[1][2] != '5':
        return (False, None)
    if not sent or sent[0][2] != '3probe':
        return (False, None)
    if not (r[0][0] < sent[0][0] < r[1][0]):
        return (False, None)
    return (True, r[1][0])


def _after_rival_upgrade(h, f, sid, s, c, win, rivals):
    """One of several overlapping handshakes went through: from then on
    the session is on that WebSocket, whatever becomes of the others."""
    out = []
    impl = f.impl
    t5 = next((t for _, t, d in win.recv_s if d == '5'), None)
    if t5 is None:
        return out
    margin = EPS + 4 * TICK
    ends = [e['t'] for e in s['events'] if e['ev'] == 'disconnect']
    t_end = min(ends) if ends else None
    if win.server_closed or win.client_closed or win.server_seen_close or \
            win.t_closed_c is not None or win.blackholed:
        # the carrier itself went away at some point: the session was ending
        return out
    others = [u['conn'] for u in c.upgrades] + rivals
    settled = t5
    for conn in others:
        ta = conn.req.t_arrive
        if conn is win or ta is None or ta <= t5 + margin:
            continue
        if t_end is not None and ta >= t_end - margin:
            continue
        if conn.accepted:
            out.append(V('second-upgrade-refused',
                         '%s|upgrade-admitted-after-upgrade' % impl,
                         'session %s went to WebSocket at t=%.4f; another '
                         'upgrade request arriving at t=%.4f was admitted '
                         'to the handshake' % (sid, t5, ta)))
    obs = [(t, snap[sid]) for (sq, t, snap) in h.snaps if sid in snap]
    if sid in h.final['table']:
        obs.append((f.end, h.final['table'][sid]))
    for (t, st) in obs:
        if t <= settled + margin or st.get('closed') or \
                st.get('closing') or (t_end is not None and
                                      t >= t_end - margin):
            continue
        if not st.get('upgraded'):
            out.append(V('second-upgrade-refused',
                         '%s|established-websocket-forgotten' % impl,
                         'session %s went to WebSocket at t=%.4f and that '
                         'socket is still open; at t=%.4f the session '
                         'reports polling' % (sid, t5, t)))
            break
    return out


def check_upgrade(h, f=None):
    f = f or Facts(h)
    out = []
    impl = f.impl
    transports = h.world.server.transports
    for sid, s in f.sess.items():
        c = s['client']
        if c is None or not s['accepted']:
            continue
        direct = c.open_ws is not None
        # the hold on packet sends lasts as long as a handshake does: with
        # every upgrade socket of the session long finished, nothing may
        # still be holding it
        st_end = h.final['table'].get(sid)
        if st_end and st_end.get('upgrading') and not st_end.get('closed') \
                and not st_end.get('closing'):
            socks = [u['conn'].req for u in c.upgrades] + [
                r for cl in h.clients for r in cl.raws
                if r.kind == 'ws' and ('sid=' + sid) in (r.query or '')]
            socks = [r for r in socks if r.seq_arrive is not None]
            if socks and all(r.seq_done is not None and
                             r.t_done < f.end - 1.0 - EPS for r in socks):
                out.append(V('failed-upgrade-harmless',
                             '%s|hold-never-released' % impl,
                             'session %s: every upgrade socket finished by '
                             't=%.4f, yet at t=%.4f the session still holds '
                             'its packets for a handshake (polls get NOOP '
                             'only)' % (sid, max(r.t_done for r in socks),
                                        f.end)))
        rivals = [r.ws for r in c.raws
                  if r.kind == 'ws' and getattr(r, 'raw_spec', None) and
                  r.raw_spec.get('script') and ('sid=' + sid) in r.query]
        if rivals:
            # a second socket runs the handshake at the same time as the
            # client's own: whichever finishes first wins, the other must
            # not carry the session as well (nothing else is judged here:
            # the client did not ask for what the rival did)
            carriers = [conn for conn in
                        [u['conn'] for u in c.upgrades] + rivals
                        if any(d != '3probe' for _, _, d in conn.sent_s)]
            if len(carriers) > 1:
                out.append(V('second-upgrade-refused',
                             '%s|two-upgrade-sockets-carry-session' % impl,
                             'session %s: overlapping handshakes on two '
                             'sockets both succeeded: %r' % (
                                 sid, [[d for _, _, d in conn.sent_s][:4]
                                       for conn in carriers])))
            if len(carriers) == 1 and impl == 'threaded' or \
                    len(carriers) == 1 and not f.has_sleep:
                out.extend(_after_rival_upgrade(h, f, sid, s, c,
                                                carriers[0], rivals))
            continue
        # observations of the session's transport
        obs = []
        for u in c.upgrades:
            if u.get('snap_after'):
                obs.append(u['snap_after'])
        for (sq, t, snap) in h.snaps:
            if sid in snap:
                obs.append((sq, t, snap[sid]))
        if sid in h.final['table']:
            obs.append((h.k.seq + 1, f.end, h.final['table'][sid]))
        done = [(_server_handshake(u['conn']), u) for u in c.upgrades]
        first_ok = min([hs[1] for hs, u in done if hs[0]], default=None)
        for (sq, t, st) in obs:
            if st is None:
                continue
            if st['upgraded'] and not direct and (first_ok is None or
                                                  sq < first_ok):
                out.append(V('upgrade-only-via-handshake',
                             '%s|upgraded-without-handshake' % impl,
                             'session %s reports transport websocket at '
                             't=%.4f but no upgrade socket had seen 2probe, '
                             '3probe, 5 in order (frames seen: %r)' % (
                                 sid, t, [[d for _, _, d in u['conn'].recv_s
                                           ][:4] for u in c.upgrades])))
                break
            if direct and not st['upgraded'] and not st['closed']:
                out.append(V('direct-ws-mode', '%s|direct-ws-not-websocket'
                             % impl, 'session %s was opened over WebSocket '
                             'but reports polling at t=%.4f' % (sid, t)))
                break
        # PONG 'probe' answers nothing but PING 'probe'
        for u in c.upgrades:
            conn = u['conn']
            if conn.recv_s and conn.recv_s[0][2] != '2probe' and \
                    any(d == '3probe' for (_s, _t, d) in conn.sent_s):
                out.append(V('upgrade-only-via-handshake',
                             '%s|probe-answered-to-non-probe' % impl,
                             'session %s: the server answered PONG probe '
                             'although the first frame on the upgrade socket '
                             'was %r' % (sid, _short(conn.recv_s[0][2]))))
                break
        # failed handshakes are harmless
        for n, (hs, u) in enumerate(done):
            if hs[0] or u.get('ok'):
                continue
            if not u.get('finished') or u['conn'].blackholed:
                continue    # (a black-holed socket has not failed as far
                #             as the server can tell: it legitimately waits)
            t_fail = u['t_end'] + 16 * TICK + f.handler_sleep
            later_up = [x for x in c.upgrades if x['t_start'] > u['t_start']]
            t_next = later_up[0]['t_start'] if later_up else f.end
            snap = u.get('snap_after')
            ended = s['disconnect'] and s['disconnect'][0]['t'] <= t_fail
            if snap and snap[2] is not None and snap[2]['upgraded'] and \
                    first_ok is None and not ended and not direct:
                out.append(V('failed-upgrade-stays-polling',
                             '%s|upgraded-after-failed-handshake' % impl,
                             'session %s: handshake %d failed (%s) but the '
                             'session reports websocket' % (
                                 sid, n, _steps(u))))
            # polls after the failure must hand out what is queued
            stuck = []
            for req in c.polls:
                if req.t_issue is None or req.t_issue < t_fail or \
                        req.t_issue >= t_next or req.status != 200 or \
                        not getattr(req, 'processed', False):
                    continue
                pk = [r for r in c.recv if r['chan'] == 'poll' and
                      r['ref'] == req.rid]
                if pk and all(r['ptype'] == R.NOOP for r in pk) and \
                        req.t_done is not None and \
                        req.t_done - req.t_arrive < TICK / 2:
                    stuck.append(req)
                else:
                    stuck = []
                if len(stuck) >= 3:
                    out.append(V('failed-upgrade-harmless',
                                 '%s|noop-forever-after-failed-handshake|%s'
                                 % (impl, _fail_shape(u)),
                                 'session %s: after handshake %d failed '
                                 '(%s) at t=%.4f, polls %r were answered '
                                 'with NOOP only: queued packets are no '
                                 'longer retrievable' % (
                                     sid, n, _steps(u), u['t_end'],
                                     [r.rid for r in stuck])))
                    break
            # a later, correct handshake must succeed
            if later_up and not ended and not direct and \
                    u.get('refused') is None and \
                    'websocket' in transports and 'polling' in transports:
                nxt = later_up[0]
                conformant = nxt['spec'].get('steps') is None
                quiet = not [cz for cz in f.causes(sid)
                             if cz['t'] <= (nxt.get('t_end') or f.end) + 1]
                # (a client with overlapping polls is not conformant: the
                # server's single NOOP releases one poll only)
                quiet = quiet and not c.spec.get('poll', {}).get('extra') \
                    and not any(fl.get('c') == c.idx
                                for fl in h.plan.get('faults', []))
                if conformant and quiet and nxt.get('finished') and \
                        nxt['t_start'] >= t_fail and not nxt.get('ok') and \
                        not c.stopped:
                    out.append(V('later-upgrade-possible',
                                 '%s|later-upgrade-refused|%s' % (
                                     impl, _fail_shape(u)),
                                 'session %s: after failed handshake %d '
                                 '(%s) a fresh, correct handshake was not '
                                 'accepted (refused=%r, frames got %r)' % (
                                     sid, n, _steps(u), nxt.get('refused'),
                                     [d for _, _, d in nxt['got']][:3])))
        # a completed upgrade refuses further ones
        if first_ok is not None:
            okc = [u['conn'] for (hs, u) in done if hs[0]][0]
            for (hs, u) in done:
                conn = u['conn']
                if conn is okc or conn.req.seq_arrive is None:
                    continue
                # (an attempt that overlaps the winning one may get as far
                # as 3probe; it must never carry the session as well)
                if conn.req.seq_arrive > first_ok and \
                        any(d != '3probe' for _, _, d in conn.sent_s) and \
                        any(d != '3probe' for _, _, d in okc.sent_s):
                    out.append(V('second-upgrade-refused',
                                 '%s|second-upgrade-carried-packets' % impl,
                                 'session %s: two upgrade sockets carried '
                                 'the session: %r and %r' % (
                                     sid, [d for _, _, d in okc.sent_s][:3],
                                     [d for _, _, d in conn.sent_s][:3])))
                # (the refusal is handled in the instant the request
                # arrives; a disconnect in that same instant is its doing)
                if conn.req.seq_arrive > first_ok and not f.causes(sid) \
                        and any(d['seq'] > conn.req.seq_arrive and
                                d['t'] <= conn.req.t_arrive + EPS
                                for d in s['disconnect']):
                    out.append(V('second-upgrade-refused',
                                 '%s|second-upgrade-disturbed-first' % impl,
                                 'session %s: the established WebSocket was '
                                 'closed by the server after a second '
                                 'upgrade attempt' % sid))
    # forbidden transports
    if 'websocket' not in transports:
        for conn in h.world.wsconns:
            if conn.sent_s:
                out.append(V('forbidden-transport',
                             '%s|websocket-used-though-not-allowed' % impl,
                             'transports=%r but WebSocket %d (query %r) '
                             'carried %r' % (transports, conn.wid,
                                             conn.req.query,
                                             [d for _, _, d in
                                              conn.sent_s][:2])))
                break
    if 'polling' not in transports:
        for req in h.world.requests:
            if req.kind == 'http' and req.status == 200 and \
                    req.method in ('GET', 'POST') and \
                    req.path.startswith('/engine.io/'):
                out.append(V('forbidden-transport',
                             '%s|polling-used-though-not-allowed' % impl,
                             'transports=%r but %s %r was answered 200' % (
                                 transports, req.method, req.query)))
                break
    return out


def _steps(u):
    st = u['spec'].get('steps')
    if st is None:
        return 'conformant steps'
    return '/'.join(str(x[1] if len(x) > 1 else x[0]) for x in st)[:60]


def _fail_shape(u):
    """Stable classification of how a handshake was sabotaged."""
    st = u['spec'].get('steps') or []
    sent = [x[1] for x in st if x[0] == 'send']
    ops = [x[0] for x in st]
    if u.get('refused') is not None:
        return 'refused'
    first = sent[0] if sent else None
    if first is None:
        return 'closed-before-probe'
    if first != '2probe':
        if first == '' or (isinstance(first, str) and first[:1] not in
                           '0123456789b'):
            return 'undecodable-first-frame'
        if isinstance(first, str) and len(first) > 64:
            return 'oversize-first-frame'
        return 'wrong-first-frame'
    if len(sent) == 1:
        return 'closed-after-probe' if ('close' in ops or 'drop' in ops) \
            else 'silent-after-probe'
    second = sent[1]
    if second == '' or (isinstance(second, str) and second[:1] not in
                        '0123456789b'):
        return 'undecodable-second-frame'
    if isinstance(second, str) and len(second) > 64:
        return 'oversize-second-frame'
    return 'wrong-second-frame'


# ===========================================================================
# C07  heartbeat
# ===========================================================================

def check_heartbeat(h, f=None):
    f = f or Facts(h)
    out = []
    impl = f.impl
    I, T = f.I, f.T
    for sid, s in f.sess.items():
        c = s['client']
        if c is None or not s['accepted']:
            continue
        q = h.world.qlog.get(sid, [])
        opens = [t for (sq, t, pt, d) in q if pt == R.OPEN]
        if not opens:
            continue
        t_open = opens[0]
        pings = [t for (sq, t, pt, d) in q if pt == R.PING]
        pongs = f.pong_arrivals(sid)
        dsc = s['disconnect'][0] if s['disconnect'] else None
        t_dead = dsc['t'] if dsc else None
        expected = [t_open + I] + [tp + I for tp in pongs]
        # (a) every PING was produced exactly I after OPEN or after a PONG
        for tp in pings:
            if not any(abs(tp - e) <= EPS for e in expected):
                near = min(expected, key=lambda e: abs(e - tp))
                out.append(V('ping-period', '%s|ping-at-wrong-time|%s' % (
                    impl, 'early' if tp < near else 'late'),
                    'session %s: PING produced at t=%.4f; expected exactly '
                    'ping_interval=%.4g after OPEN (%.4f) or a PONG (%r): '
                    'nearest expected %.4f' % (sid, tp, I, t_open,
                                               [round(x, 4) for x in
                                                pongs][:6], near)))
                break
        for e in expected:
            if e > f.end - 2 * TICK - (EPS - EPS0):
                continue
            if t_dead is not None and e >= t_dead - EPS:
                continue
            if not any(abs(tp - e) <= EPS for tp in pings):
                out.append(V('ping-period', '%s|ping-missing' % impl,
                             'session %s: no PING at t=%.4f (ping_interval '
                             'after %s) although the session was open' % (
                                 sid, e, 'OPEN' if e == expected[0]
                                 else 'a PONG')))
                break
        # (b)/(c) are the session-event rules with the heartbeat bound;
        # (d) a poll is never held longer than I + T
        for req in c.polls + [r for r in c.raws if r.method == 'GET']:
            if req.t_arrive is None or ('sid=' + sid) not in req.query:
                continue
            t1 = req.t_done if req.t_done is not None else f.end
            if t1 - req.t_arrive > I + T + 2 * TICK + f.handler_sleep:
                out.append(V('poll-bound', '%s|poll-held-longer-than-I+T' %
                             impl, 'session %s: poll %d reached the server '
                             'at t=%.4f and was %s at t=%.4f, longer than '
                             'ping_interval + ping_timeout = %.4g' % (
                                 sid, req.rid, req.t_arrive,
                                 'answered' if req.t_done is not None
                                 else 'still pending', t1, I + T)))
                break
            if req.t_done is not None and req.status == 400 and \
                    abs((req.t_done - req.t_arrive) - (I + T)) <= EPS:
                # clause (d): answered with an error => the session closes
                if not s['disconnect']:
                    out.append(V('poll-timeout-closes',
                                 '%s|poll-timeout-session-kept' % impl,
                                 'session %s: poll %d timed out with an '
                                 'error but the session got no disconnect '
                                 'event' % (sid, req.rid)))
        # (c) detection bound: last PONG + I + 3T = unanswered PING + 3T
        if f.monitor and dsc is not None and not f.has_sleep:
            sil = [cz for cz in f.causes(sid) if cz['kind'] == 'silence' and
                   cz.get('resumed') is None and not cz.get('optional')]
            if sil:
                cz = min(sil, key=lambda x: x['t'])
                deadline = cz['t'] + 2 * T
                if dsc['t'] > deadline + 2 * TICK:
                    out.append(V('detection-bound',
                                 '%s|silence-detected-late' % impl,
                                 'session %s: PING of t=%.4f was never '
                                 'answered; the session was dropped (%r) at '
                                 't=%.4f, later than PING + 3 x ping_timeout '
                                 '= %.4f (%d sessions, interval %.4g, '
                                 'timeout %.4g)' % (
                                     sid, cz['t'] - T, dsc['arg'], dsc['t'],
                                     deadline, len(f.sess), I, T)))
        # monitor off: the first send after the deadline detects the silence
        if not f.monitor and not s['disconnect']:
            for cz in f.causes(sid):
                if cz['kind'] != 'silence' or cz.get('resumed') is not None \
                        or cz.get('optional'):
                    continue
                for rec in h.app_sends:
                    if rec['sid'] == sid and rec['t_start'] is not None and \
                            rec['t_start'] > cz['t'] + TICK + \
                            f.handler_sleep and \
                            rec['t_start'] < f.end - 0.1:
                        out.append(V('detect-at-send',
                                     '%s|send-after-deadline-did-not-detect'
                                     % impl,
                                     'session %s: PING unanswered since '
                                     't=%.4f, send() at t=%.4f did not '
                                     'disconnect it' % (sid, cz['t'] - T,
                                                        rec['t_start'])))
                        break
    return out


# ===========================================================================
# C12  request admission        C15  request completion
# ===========================================================================

import urllib.parse as _up


def ref_admission(server, req, snap):
    """Reference admission: returns (refusals, note).  ``refusals`` is the
    set of refusal statuses the statement allows for this request; empty
    means the request must be admitted; None means grey."""
    q = _up.parse_qs(req.query)
    transport = q.get('transport', ['polling'])[0]
    sid = q['sid'][0] if 'sid' in q else None
    hdr = {k.lower(): v for k, v in req.headers}
    upg = hdr.get('upgrade', '').lower() or None
    is_upgrade_req = upg == 'websocket' and 'upgrade' in [
        x.strip() for x in hdr.get('connection', '').lower().split(',')]
    ref = set()
    if transport not in server.transports:
        ref.add(400)
    if sid is None and q.get('EIO') != ['4']:
        ref.add(400)
    if 'j' in q:
        j = q['j'][0]
        if j.lstrip('-').isascii() and j.lstrip('-').isdigit() and \
                j.count('-') <= 1:
            pass
        elif any(ch.isdigit() for ch in j):
            return None, 'odd jsonp index'
        else:
            ref.add(400)
    m = req.method
    if m not in ('GET', 'POST', 'OPTIONS'):
        ref.add(405)
        return ref, 'method'
    if m == 'OPTIONS':
        return ref, 'options'
    st = snap.get(sid) if sid is not None else None
    live = st is not None and not st['closed']
    if sid is not None and st is not None and st['closing'] and \
            not st['closed']:
        return None, 'session is closing'
    if m == 'POST':
        if sid is None or not live:
            ref.add(400)
        return ref, 'post'
    # GET
    if sid is None:
        if transport == 'websocket' and upg != 'websocket':
            ref.add(400)
        return ref, 'open'
    if not live:
        ref.add(400)
        return ref, 'read-dead'
    cur = 'websocket' if st['upgraded'] else 'polling'
    if st['upgrading']:
        return None, 'mid-upgrade'
    if transport != cur and not (transport == 'websocket' and
                                 is_upgrade_req):
        ref.add(400)
    if cur == 'websocket':
        # a read on an upgraded session: polling reads are refused above;
        # a further websocket upgrade is C06's business
        if not ref:
            return None, 'second upgrade'
    if cur == 'polling' and is_upgrade_req and not ref and \
            transport == 'websocket':
        return ref, 'upgrade'
    return ref, 'read'


def _others_between(h, req):
    """Did anything besides this request's own refusal happen between its
    arrival and its completion?  (A refusal fires nothing itself, so any
    logged event in that window makes before/after comparisons ambiguous;
    a connect handler run by this very request is judged separately.)"""
    lo, hi = req.seq_arrive, req.seq_done
    # (thread switches leave no log entry: anything else that entered the
    # server on the same tick may be half-way through its work)
    for r2 in h.world.requests:
        if r2 is not req and r2.t_arrive is not None and \
                abs(r2.t_arrive - req.t_arrive) <= EPS:
            return True
    for a in h.world.api_calls:
        if a['t_start'] is not None and \
                abs(a['t_start'] - req.t_arrive) <= EPS:
            return True
    if _frames_same_tick(h, req):
        return True
    for (sq, t, actor, kind, payload) in h.k.log:
        if sq <= lo or sq >= hi:
            continue
        if kind == 'spawn' and payload.get('thread') == 'W%d' % req.rid:
            continue
        return True
    return False


def _frames_same_tick(h, req):
    """A WebSocket frame or close that reached the server in the instant
    the request did: the state the request met is either side of it."""
    for conn in h.world.wsconns:
        for (_sq, t, _item) in conn.arrivals:
            if abs(t - req.t_arrive) <= EPS:
                return True
    return False


def check_admission(h, f=None):
    f = f or Facts(h)
    out = []
    impl = f.impl
    server = h.world.server
    connect_by_rid = {}
    for e in h.app.events:
        if e['ev'] == 'connect' and e.get('rid') is not None:
            connect_by_rid.setdefault(e['rid'], []).append(e)
    for c in h.clients:
        for req in c.raws:
            if req.seq_arrive is None or req.snap_arrive is None:
                continue
            if req.path != '/engine.io/':
                continue
            if [k for k, v in req.headers if k.lower() == 'origin']:
                continue
            ref, note = ref_admission(server, req, req.snap_arrive)
            if ref is None:
                continue
            hd = {k.lower(): v.lower() for k, v in req.headers}
            if hd.get('upgrade') == 'websocket' and \
                    'websocket' not in server.transports:
                continue    # grey: half an upgrade request for a transport
                #             that is not allowed may be refused or polled
            tq = _up.parse_qs(req.query).get('sid', [None])[0]
            if tq is not None and req.snap_done is not None and \
                    (req.snap_arrive.get(tq) or {}).get('closed') != \
                    (req.snap_done.get(tq) or {'closed': True}).get(
                        'closed') and not ref:
                continue    # the session ended while the request was in
                #             the server: either answer is right
            spec = getattr(req, 'raw_spec', {})
            shape = '%s|%s' % (req.method, note)
            if req.kind == 'ws':
                # websocket requests: refusal = handshake refused
                conn = req.ws
                if ref and conn.accepted:
                    out.append(V('admission-status',
                                 '%s|ws-admitted-should-refuse|%s' % (
                                     impl, note),
                                 'websocket request %r with session state '
                                 '%r must be refused (%s) but the handshake '
                                 'was accepted' % (
                                     req.query, _st(req), sorted(ref))))
                continue
            if req.status is None:
                continue        # completion is C15's business
            if ref:
                if req.status not in ref:
                    out.append(V('admission-status',
                                 '%s|admitted-should-refuse|%s|got=%s' % (
                                     impl, shape, req.status),
                                 '%s %r (headers %r), session state %r: the '
                                 'reference admission refuses with %s, the '
                                 'server answered %s' % (
                                     req.method, req.query, req.headers,
                                     _st(req), sorted(ref), req.status)))
                    continue
                # no effect at all
                if req.rid in connect_by_rid:
                    out.append(V('refusal-no-effect',
                                 '%s|refused-request-ran-connect|%s' % (
                                     impl, shape),
                                 'refused request %s %r (%s) ran the '
                                 'connect handler' % (req.method, req.query,
                                                      req.status)))
                if req.snap_done is not None and \
                        not _others_between(h, req):
                    a, b = req.snap_arrive, req.snap_done
                    for sid2, st in a.items():
                        st2 = b.get(sid2)
                        if st is None:
                            continue
                        if st.get('closing') and not st.get('closed'):
                            # another thread was in the middle of closing
                            # this session when the request arrived
                            continue
                        if st2 is None:
                            if not st['closed']:
                                out.append(V(
                                    'refusal-no-effect',
                                    '%s|refused-request-removed-session|%s'
                                    % (impl, shape),
                                    'refused request %s %r (%s) removed the '
                                    'live session %s from the table' % (
                                        req.method, req.query, req.status,
                                        sid2)))
                            continue
                        for key in ('upgraded', 'closed', 'closing',
                                    'upgrading'):
                            if st[key] != st2[key]:
                                out.append(V(
                                    'refusal-no-effect',
                                    '%s|refused-request-changed-%s|%s' % (
                                        impl, key, shape),
                                    'refused request %s %r (%s) changed '
                                    '%s of session %s from %r to %r' % (
                                        req.method, req.query, req.status,
                                        key, sid2, st[key], st2[key])))
                    for sid2 in b:
                        if sid2 not in a:
                            out.append(V(
                                'refusal-no-effect',
                                '%s|refused-request-created-session|%s' % (
                                    impl, shape),
                                'refused request %s %r (%s) created session '
                                '%s' % (req.method, req.query, req.status,
                                        sid2)))
            else:
                ok = (200, 401) if note == 'open' else (200,)
                if note == 'post' and req.status == 400:
                    # the body may legitimately fail the request
                    continue
                if note == 'read' and req.status == 400 and \
                        req.t_done - req.t_arrive > TICK:
                    continue      # poll time-out
                if req.status not in ok and _frames_same_tick(h, req):
                    continue      # tie with a frame that changes the state
                if req.status not in ok:
                    out.append(V('admission-status',
                                 '%s|refused-should-admit|%s|got=%s' % (
                                     impl, shape, req.status),
                                 '%s %r (headers %r), session state %r: '
                                 'well-addressed request answered %s' % (
                                     req.method, req.query, req.headers,
                                     _st(req), req.status)))
    return out


def _st(req):
    sid = getattr(req, 'target_sid', None)
    q = _up.parse_qs(req.query)
    sid = q['sid'][0] if 'sid' in q else None
    st = (req.snap_arrive or {}).get(sid)
    if sid is None:
        return 'no sid'
    if st is None:
        return 'unknown sid'
    return ('websocket' if st['upgraded'] else 'polling') + (
        ',closed' if st['closed'] else '') + (
        ',upgrading' if st['upgrading'] else '')


def check_completion(h, f=None):
    """C15: every non-upgrade request gets exactly one well-formed response
    in bounded time; application calls return in bounded time."""
    f = f or Facts(h)
    out = []
    impl = f.impl
    bound_poll = f.I + f.T + 2 * TICK + f.handler_sleep
    bound_fast = 2 * TICK + f.handler_sleep
    for req in h.world.requests:
        if req.kind != 'http' or req.seq_arrive is None:
            continue
        req.maxsize = h.world.server.max_http_buffer_size
        req.pkt_limit = h.world.app_opts.get('max_decode_packets', 16)
        shape = _req_shape(req)
        if _half_ws_open(req) and (req.gw_errors or req.status is None):
            out.append(V('well-formed-response',
                         '%s|ws-open-without-connection-header' % impl,
                         'GET %r with headers %r (transport=websocket, '
                         'Upgrade but no "Connection: upgrade", so not an '
                         'upgrade request): %s' % (
                             req.query, req.headers,
                             '; '.join(req.gw_errors) or 'no response')))
            continue
        if req.escaped and 'sid=' not in req.query and any(
                a['name'] == 'disconnect' and 'sid' not in a and
                a['seq_start'] is not None and
                a['seq_start'] < (req.seq_done or 1 << 60) and
                (a['seq_end'] is None or a['seq_end'] > req.seq_arrive)
                for a in h.world.api_calls):
            # K10: disconnect() (all sessions) closed the session this very
            # request was opening
            out.append(V('no-exception-escapes',
                         '%s|disconnect-all-during-connect' % impl,
                         'open request %s %r: %s left the application '
                         'callable: Server.disconnect() closed the session '
                         'between its entry into the table and the end of '
                         '_handle_connect' % (req.method, req.query,
                                              req.escaped)))
            continue
        if req.escaped:
            exc = req.escaped.split(':')[0]
            out.append(V('no-exception-escapes',
                         '%s|exception-escaped|%s|%s' % (impl, exc, shape),
                         '%s %r (body %r): %s left the application callable'
                         % (req.method, req.query, _short(req.body),
                            req.escaped)))
            continue
        for g in req.gw_errors[:1]:
            out.append(V('well-formed-response',
                         '%s|gateway-violation|%s' % (impl, g.split(' ')[0]),
                         '%s %r: %s' % (req.method, req.query, g)))
        if req.seq_done is None:
            waited = f.end - req.t_arrive
            is_poll = req.method == 'GET' and 'sid=' in req.query
            if waited > (bound_poll if is_poll else bound_fast) + EPS:
                blocked = [b for b in (h.final.get('blocked') or [])
                           if b[0] == 'W%d' % req.rid]
                where = blocked[0][1] if blocked else 'pending'
                if req.method == 'POST' and 'refused-body' in shape and \
                        'live-sid' in shape:
                    q_ = _up.parse_qs(req.query)
                    where += '|' + k1_reader(
                        h, q_['sid'][0] if 'sid' in q_ else None,
                        req.t_arrive, req.seq_arrive)
                out.append(V('bounded-completion',
                             '%s|request-never-completed|%s|%s' % (
                                 impl, shape, where),
                             '%s %r arrived at t=%.4f and was still '
                             'unanswered at t=%.4f (worker: %s)' % (
                                 req.method, req.query, req.t_arrive, f.end,
                                 where)))
            continue
        dur = req.t_done - req.t_arrive
        is_poll = req.method == 'GET' and 'sid=' in req.query
        if req.method == 'POST' and req.status == 400 and \
                'refused-body' in shape:
            # the server drops the session and (close(wait=True)) lets a
            # reader drain the queue first: bounded by the poll bound
            is_poll = True
        if dur > (bound_poll if is_poll else bound_fast) + EPS:
            out.append(V('bounded-completion',
                         '%s|request-too-slow|%s' % (impl, shape),
                         '%s %r took %.4f virtual seconds (bound %.4f)' % (
                             req.method, req.query, dur,
                             bound_poll if is_poll else bound_fast)))
        if req.status not in (200, 400, 401, 405) and \
                req.path.startswith('/engine.io/'):
            out.append(V('status-set', '%s|status-%s|%s' % (impl, req.status,
                                                             shape),
                         '%s %r answered %s' % (req.method, req.query,
                                                req.status)))
    for a in h.world.api_calls:
        if a['seq_start'] is None:
            continue
        t1 = a['t_end'] if a['t_end'] is not None else f.end
        if t1 - a['t_start'] > bound_poll + EPS:
            b = a.get('before')
            tr = 'no-session' if b is None else (
                'websocket' if b['upgraded'] else 'polling')
            what = a['name'] + ('(sid)' if 'sid' in a else '()')
            if 'sid' not in a:
                tr = 'all'
            if a['name'] == 'disconnect':
                tr += '|' + (k1_reader(h, a.get('sid'), a['t_start'],
                                       a['seq_start'])
                             if 'sid' in a else k1_reader_all(h, a))
            out.append(V('api-returns',
                         '%s|api-call-blocked|%s|%s' % (impl, what, tr),
                         'application call %s%s started at t=%.4f and %s '
                         '(session: %s)' % (
                             a['name'], a.get('args', ''), a['t_start'],
                             'returned only at t=%.4f' % a['t_end']
                             if a['t_end'] is not None else
                             'had not returned at t=%.4f' % f.end, tr)))
        if a.get('exc') and a['name'] in ('send', 'disconnect',
                                          'send_packet'):
            out.append(V('api-no-exception',
                         '%s|api-call-raised|%s|%s' % (
                             impl, a['name'], a['exc'].split(':')[0]),
                         'application call %s%s raised %s' % (
                             a['name'], a.get('args', ''), a['exc'])))
    return out


def _half_ws_open(req):
    q = _up.parse_qs(req.query)
    hd = {k.lower(): v.lower() for k, v in req.headers}
    return req.method == 'GET' and 'sid' not in q and \
        q.get('transport') == ['websocket'] and \
        hd.get('upgrade') == 'websocket' and 'upgrade' not in [
            x.strip() for x in hd.get('connection', '').split(',')]


def _refused_body(req, limit=16, maxsize=10 ** 6):
    """Does this POST body make the server drop the session (refused
    packet type or declared length over the limit)?"""
    declared = len(req.body) if req.declared is None else _int(req.declared)
    if declared is None:
        return False
    if declared > maxsize:
        return True
    try:
        pk = R.ref_payload_decode(req.body[:declared].decode('utf-8'), limit)
    except (R.RefError, UnicodeDecodeError):
        return False
    for (pt, d, cert) in pk:
        if pt == R.CLOSE:
            return False
        if pt in REFUSED_TYPES:
            return True
    return False


def _req_shape(req):
    q = _up.parse_qs(req.query)
    kind = req.method
    if req.method == 'POST' and _refused_body(
            req, limit=getattr(req, 'pkt_limit', 16),
            maxsize=getattr(req, 'maxsize', 10 ** 6)):
        kind += '|refused-body'
    if 'sid' in q:
        st = (req.snap_arrive or {}).get(q['sid'][0])
        if st is None:
            kind += '|unknown-sid'
        elif st['closed']:
            kind += '|closed-sid'
        else:
            kind += '|live-sid'
    else:
        kind += '|no-sid'
    return kind


# ===========================================================================
# C16  session table hygiene
# ===========================================================================

def check_hygiene(h, f=None):
    f = f or Facts(h)
    out = []
    impl = f.impl
    calls = [a for a in h.world.api_calls if a['seq_start'] is not None]
    writes = {}
    for a in calls:
        if a['name'] in ('save_session', 'session') and 'sid' in a:
            writes.setdefault(a['sid'], []).append(a)
    for a in calls:
        name = a['name']
        if name not in ('send', 'get_session', 'save_session', 'session',
                        'transport') or 'sid' not in a:
            continue
        sid = a['sid']
        b = a.get('before')
        s = f.sess.get(sid)
        dead = b is None or b['closed']
        if s is not None and not s['accepted']:
            dead = True     # by the model: a rejected id is never live
        if s is not None and s['accepted'] and s['disconnect'] and \
                s['disconnect'][0].get('seq_end', s['disconnect'][0]['seq']) \
                < a['seq_start'] and \
                s['disconnect'][0]['t'] < a['t_start'] - EPS:
            dead = True     # by the model: disconnected before the call
        racing = b is not None and b['closing'] and not b['closed']
        if s is not None and s['disconnect'] and not dead:
            d = s['disconnect'][0]
            if abs(d['t'] - a['t_start']) <= EPS:
                racing = True
        if s is not None and not s['accepted'] and b is not None and \
                abs(s['connect'][0]['t'] - a['t_start']) <= EPS:
            racing = True       # inside the rejecting connect handler
        if racing:
            continue
        kind = 'unknown' if s is None else (
            'rejected' if not s['accepted'] else 'disconnected')
        if dead:
            if name == 'send':
                if a['exc']:
                    out.append(V('dead-id-send-noop',
                                 '%s|send-to-%s-id-raised|%s' % (
                                     impl, kind, a['exc'].split(':')[0]),
                                 'send() to the %s id %s raised %s' % (
                                     kind, sid, a['exc'])))
                elif a['t_end'] is None:
                    out.append(V('dead-id-send-noop',
                                 '%s|send-to-%s-id-blocked' % (impl, kind),
                                 'send() to the %s id %s never returned' % (
                                     kind, sid)))
            else:
                if a['t_end'] is None:
                    continue
                if not (a['exc'] or '').startswith('KeyError'):
                    out.append(V('dead-id-keyerror',
                                 '%s|%s-on-%s-id|%s' % (
                                     impl, name, kind,
                                     (a['exc'] or 'returned').split(':')[0]),
                                 '%s(%r) on the %s id %s: %s' % (
                                     name, sid, kind,
                                     'raised ' + a['exc'] if a['exc'] else
                                     'returned %r' % (a['ret'],),
                                     '(KeyError expected)')))
            continue
        # live id
        if a['exc'] and a['t_end'] is not None:
            # the session may have ended while the call ran
            aft = a.get('after')
            if aft is None or aft['closed'] or aft['closing']:
                continue
            out.append(V('live-id-works', '%s|%s-on-live-id-raised|%s' % (
                impl, name, a['exc'].split(':')[0]),
                '%s(%r) on a live session raised %s' % (name, sid,
                                                        a['exc'])))
            continue
        if name == 'transport' and a['t_end'] is not None:
            want = 'websocket' if b['upgraded'] else 'polling'
            aft = a.get('after') or b
            if a['ret'] != want and aft['upgraded'] == b['upgraded']:
                out.append(V('transport-api', '%s|transport-wrong' % impl,
                             'transport(%r) returned %r, session is %s' % (
                                 sid, a['ret'], want)))
        if name == 'get_session' and a['t_end'] is not None and \
                isinstance(a['ret'], dict):
            got = a['ret']
            owner = got.get('owner')
            c = s['c'] if s else None
            if owner is not None and owner != c:
                out.append(V('session-isolation',
                             '%s|foreign-session-data' % impl,
                             'get_session(%r) of client %s returned data '
                             'saved for client %s: %r' % (sid, c, owner,
                                                          got)))
                continue
            ws = sorted(writes.get(sid, []), key=lambda w: w['seq_start'])
            if any(w['seq_end'] is None or
                   (w['seq_start'] < a['seq_end'] and
                    w['seq_end'] > a['seq_start']) for w in ws):
                continue        # overlapping write: grey
            model = {}
            ok = True
            for w in ws:
                if w['seq_end'] < a['seq_start']:
                    if w['exc']:
                        continue
                    if w['name'] == 'save_session':
                        model = dict(w['value'])
                    else:
                        model.update(w['value'])
            if ok and got != model:
                out.append(V('session-data', '%s|session-data-mismatch' %
                             impl, 'get_session(%r) returned %r, the '
                             'model holds %r' % (sid, got, model)))
    # a client that went away: its session leaves the table in bounded time
    if f.monitor:
        for c in h.clients:
            if not c.stopped or c.sid is None or \
                    getattr(c, 'end_t', None) is None:
                continue
            if c.end_t + 2 * f.I + 6 * f.T + 1.0 > f.end:
                continue
            st = h.final['table'].get(c.sid)
            if st is not None:
                ph = c._upg_phase()
                out.append(V('vanished-client-reaped',
                             '%s|vanished-client-still-in-table|%s' % (
                                 impl, 'mid-upgrade' if ph in (
                                     'started', 'probed', 'sent5')
                                 else 'steady'),
                             'client %d vanished at t=%.4f (upgrade phase '
                             '%s); at t=%.4f, more than 2 x ping_interval + '
                             '6 x ping_timeout later, its session %s is '
                             'still in the table: %r' % (
                                 c.idx, c.end_t, ph, f.end, c.sid, st)))
    # the table holds exactly the live sessions once things have settled
    settle = f.I + 6 * f.T
    last = 0.0
    for s in f.sess.values():
        for e in s['events']:
            last = max(last, e['t'])
    for c in h.clients:
        if getattr(c, 'end_t', None) is not None:
            last = max(last, c.end_t)
    if f.monitor and f.end >= last + settle:
        live = {sid for sid, s in f.sess.items()
                if s['accepted'] and not s['disconnect']}
        table = set(h.final['table'].keys())
        for sid in sorted(table - live):
            st = h.final['table'][sid]
            s = f.sess.get(sid)
            kind = 'unknown' if s is None else (
                'rejected' if not s['accepted'] else 'disconnected')
            out.append(V('table-exact', '%s|%s-session-still-in-table' % (
                impl, kind), 'at t=%.4f (last event t=%.4f, settle %.4g) '
                'the table still holds the %s session %s: %r' % (
                    f.end, last, settle, kind, sid, st)))
            break
        for sid in sorted(live - table):
            out.append(V('table-exact', '%s|live-session-missing' % impl,
                         'session %s got no disconnect event but is not in '
                         'the table at t=%.4f' % (sid, f.end)))
            break
    return out


# ===========================================================================
# C11  OPEN handshake
# ===========================================================================

import json as _json


def _cookie_expect(cfg_cookie, sid):
    """Reference Set-Cookie value for a configuration, or None."""
    if not cfg_cookie:
        return None
    if isinstance(cfg_cookie, dict):
        out = cfg_cookie.get('name', 'io') + '=' + sid
        for k, v in cfg_cookie.items():
            if k == 'name':
                continue
            if v == '__callable__':
                v = 'called'
            if v is True:
                out += '; ' + k
            else:
                out += '; ' + k + '=' + v
        return out
    return cfg_cookie + '=' + sid + '; path=/; SameSite=Lax'


def check_open(h, f=None):
    f = f or Facts(h)
    out = []
    impl = f.impl
    cfg = h.plan.get('config', {})
    server = h.world.server
    pi = cfg.get('ping_interval', 25)
    I, G = (pi[0], pi[1]) if isinstance(pi, (list, tuple)) else (pi, 0)
    T = cfg.get('ping_timeout', 20)
    want = {'pingInterval': (I + G) * 1000, 'pingTimeout': T * 1000,
            'maxPayload': cfg.get('max_http_buffer_size', 1000000)}
    by_rid = {}
    for e in h.app.events:
        if e['ev'] == 'connect' and e.get('rid') is not None:
            by_rid.setdefault(e['rid'], []).append(e)
    for c in h.clients:
        req = c.open_req
        if req is None or req.seq_arrive is None:
            continue
        evs = by_rid.get(req.rid, [])
        if len(evs) > 1:
            out.append(V('one-session', '%s|open-created-%d-sessions' % (
                impl, len(evs)), 'open request %d ran the connect handler '
                '%d times' % (req.rid, len(evs))))
        outcome = evs[0].get('outcome') if evs else None
        accepted = outcome in ('none', 'true')
        via = 'ws' if req.kind == 'ws' else 'polling'
        if evs and not accepted:
            sid = evs[0]['sid']
            # rejected: 401 carrying the value when truthy
            val = {'false': False, 'zero': 0, 'empty': '', 'text': 'go away',
                   'dict': {'code': 7, 'why': 'no'}, 'list': ['no', 1],
                   'emptylist': [], 'raise': False, 'one': 1,
                   'onefloat': 1.0, 'zerofloat': 0.0, 'num': 7,
                   'emptydict': {}}.get(outcome)
            if req.kind == 'http':
                if req.status != 401:
                    out.append(V('reject-401', '%s|rejected-open-status-%s|%s'
                                 % (impl, req.status, outcome),
                                 'connect handler outcome %s but the open '
                                 'was answered %s' % (outcome, req.status)))
                else:
                    try:
                        body = _json.loads(req.resp_body.decode('utf-8'))
                    except ValueError:
                        body = GREYBODY
                    exp = val if val else 'Unauthorized'
                    if body is GREYBODY or not R.same_value(body, exp):
                        out.append(V('reject-401', '%s|rejected-open-body|%s'
                                     % (impl, outcome),
                                     '401 body %r does not carry %r' % (
                                         req.resp_body[:60], exp)))
            else:
                if req.ws.accepted and c.sid is not None:
                    out.append(V('reject-401', '%s|rejected-ws-open-accepted'
                                 '|%s' % (impl, outcome),
                                 'connect handler outcome %s but the '
                                 'WebSocket open delivered an OPEN packet'
                                 % outcome))
            if sid in h.final['table']:
                out.append(V('reject-discards', '%s|rejected-session-in-'
                             'table|%s' % (impl, outcome),
                             'rejected session %s is still in the table' %
                             sid))
            continue
        if not evs:
            continue
        sid = evs[0]['sid']
        if req.kind == 'http' and req.status != 200:
            out.append(V('open-accepted', '%s|accepted-open-status-%s' % (
                impl, req.status), 'connect handler accepted (%s) but the '
                'open was answered %s' % (outcome, req.status)))
            continue
        info = c.open_info
        if info is None:
            if req.kind == 'http' or req.ws.accepted:
                if any(k == 'transform' for (k, _r, _m) in c.decode_errors):
                    continue    # transformation problems are C19's
                out.append(V('open-first', '%s|no-open-packet|%s' % (impl,
                                                                      via),
                             'open request %d was accepted but no OPEN '
                             'packet came first' % req.rid))
            continue
        first = [r for r in c.recv if r['ref'] in (req.rid, getattr(
            c.open_ws, 'wid', -1))][:1]
        if first and first[0]['ptype'] != R.OPEN:
            out.append(V('open-first', '%s|first-packet-%s' % (
                impl, first[0]['ptype']), 'first packet is not OPEN'))
        if info.get('sid') != sid:
            out.append(V('open-sid', '%s|sid-mismatch' % impl,
                         'OPEN sid %r, connect handler saw %r' % (
                             info.get('sid'), sid)))
        for key, val in want.items():
            got = info.get(key)
            if not isinstance(got, (int, float)) or isinstance(got, bool) \
                    or abs(got - val) > 1e-6:
                out.append(V('open-fields', '%s|%s-wrong' % (impl, key),
                             'OPEN %s=%r, configuration says %r (interval '
                             '%r grace %r timeout %r)' % (key, got, val, I,
                                                          G, T)))
        ups = info.get('upgrades')
        if not isinstance(ups, list) or any(u != 'websocket' for u in ups):
            out.append(V('open-upgrades', '%s|upgrades-garbage' % impl,
                         'upgrades=%r' % (ups,)))
        elif 'websocket' in ups:
            if via == 'ws':
                out.append(V('open-upgrades', '%s|upgrades-on-websocket' %
                             impl, 'a WebSocket open advertises an upgrade'))
            # advertised => a correct attempt must be accepted
            for u in c.upgrades[:1]:
                if u['spec'].get('steps') is None and \
                        want['maxPayload'] >= 6 and \
                        not u['spec'].get('query') and u.get('finished') \
                        and not u.get('ok') and not f.causes(sid) and \
                        not c.spec.get('poll', {}).get('extra') and \
                        not any(fl.get('c') == c.idx
                                for fl in h.plan.get('faults', [])):
                    out.append(V('open-upgrades',
                                 '%s|advertised-upgrade-refused|transports='
                                 '%s' % (impl, '+'.join(server.transports)),
                                 'OPEN advertised upgrades=%r (transports='
                                 '%r, allow_upgrades=%r) but a correct '
                                 'upgrade was refused (%r)' % (
                                     ups, server.transports,
                                     server.allow_upgrades,
                                     u.get('refused'))))
        # cookie
        if req.kind == 'http':
            sc = [v for k, v in (req.resp_headers or [])
                  if k.lower() == 'set-cookie']
            exp = _cookie_expect(cfg.get('cookie'), sid)
            if exp is None and sc:
                out.append(V('open-cookie', '%s|cookie-not-configured' %
                             impl, 'Set-Cookie %r without configuration' %
                             sc))
            elif exp is not None and sc != [exp]:
                out.append(V('open-cookie', '%s|cookie-wrong' % impl,
                             'Set-Cookie %r, expected %r' % (sc, exp)))
    return out


GREYBODY = object()


# ===========================================================================
# C13  origin policy
# ===========================================================================

GREY_ORIGIN = 'grey'


def ref_origin_allowed(cfg, req, impl=None):
    """Reference policy.  Returns True / False, None when origin checking
    is off altogether (empty allow-list), or GREY_ORIGIN where the statement
    does not decide (asyncio drivers cannot see the connection's own scheme
    once X-Forwarded-Proto is present: the un-forwarded variant is grey)."""
    hd = {}
    for k, v in req.headers:
        hd.setdefault(k.lower(), v)
    origin = hd.get('origin')
    if cfg == []:
        return None
    if not origin:
        return True
    if cfg is None:
        host = hd.get('host', 'sim.local')
        allowed = {'%s://%s' % (req.scheme, host)}
        if 'x-forwarded-proto' in hd or 'x-forwarded-host' in hd:
            sch = hd.get('x-forwarded-proto', req.scheme).split(
                ',')[0].strip()
            hst = hd.get('x-forwarded-host', host).split(',')[0].strip()
            allowed.add('%s://%s' % (sch, hst))
            if impl == 'asyncio' and 'x-forwarded-proto' in hd:
                if origin.endswith('://' + host):
                    return GREY_ORIGIN
        return origin in allowed
    if cfg == '*':
        return True
    if isinstance(cfg, str):
        return origin == cfg
    if isinstance(cfg, dict):
        return origin in cfg.get('callable', [])
    return origin in cfg


def check_origin(h, f=None):
    f = f or Facts(h)
    out = []
    impl = f.impl
    cfg = h.plan.get('config', {}).get('cors_allowed_origins')
    cred = h.plan.get('config', {}).get('cors_credentials', True)
    connect_by_rid = {}
    for e in h.app.events:
        if e['ev'] == 'connect' and e.get('rid') is not None:
            connect_by_rid.setdefault(e['rid'], []).append(e)
    for req in h.world.requests:
        if req.seq_arrive is None or not req.path.startswith('/engine.io/'):
            continue
        hd = {}
        for k, v in req.headers:
            hd.setdefault(k.lower(), v)
        origin = hd.get('origin')
        ok = ref_origin_allowed(cfg, req, impl)
        if ok == GREY_ORIGIN:
            continue
        kind = req.tag or req.method
        if req.kind == 'ws':
            if ok is False and req.ws.accepted:
                out.append(V('origin-gate', '%s|ws-admitted-bad-origin|%s' %
                             (impl, _cfg_shape(cfg)),
                             'WebSocket request %r with Origin %r (policy '
                             '%r, scheme %s, host %r) was accepted' % (
                                 req.query, origin, cfg, req.scheme,
                                 hd.get('host'))))
            if ok is False and req.rid in connect_by_rid:
                out.append(V('origin-gate', '%s|connect-ran-bad-origin|ws' %
                             impl, 'connect handler ran for a WebSocket '
                             'request with disallowed Origin %r' % origin))
            continue
        if req.status is None:
            continue
        if ok is False:
            if req.status != 400:
                out.append(V('origin-gate', '%s|admitted-bad-origin|%s|%s' %
                             (impl, _cfg_shape(cfg), req.method),
                             '%s %r with Origin %r (policy %r, scheme %s, '
                             'host %r, forwarded %r/%r) was answered %s, '
                             'not 400' % (
                                 req.method, req.query, origin, cfg,
                                 req.scheme, hd.get('host'),
                                 hd.get('x-forwarded-proto'),
                                 hd.get('x-forwarded-host'), req.status)))
            if req.rid in connect_by_rid:
                out.append(V('origin-gate', '%s|connect-ran-bad-origin|http'
                             % impl, 'connect handler ran for a request '
                             'with disallowed Origin %r' % origin))
            if req.snap_done is not None and not _others_between(h, req):
                a, b = req.snap_arrive, req.snap_done
                if set(a) != set(b) or any(
                        a[k] and b[k] and (a[k]['closed'], a[k]['upgraded'])
                        != (b[k]['closed'], b[k]['upgraded']) for k in a):
                    out.append(V('origin-gate', '%s|bad-origin-had-effect' %
                                 impl, 'request with disallowed Origin %r '
                                 'changed the session table: %r -> %r' % (
                                     origin, sorted(a), sorted(b))))
        elif ok is True and origin:
            # an allowed origin must not be turned away for its origin
            if req.status == 400 and b'origin' in (req.resp_body or
                                                   b'').lower():
                out.append(V('origin-allow',
                             '%s|refused-allowed-origin|%s|scheme=%s' % (
                                 impl, _cfg_shape(cfg), req.scheme),
                             '%s %r with Origin %r (policy %r, scheme %s, '
                             'host %r, forwarded %r/%r) was refused: %r' % (
                                 req.method, req.query, origin, cfg,
                                 req.scheme, hd.get('host'),
                                 hd.get('x-forwarded-proto'),
                                 hd.get('x-forwarded-host'),
                                 req.resp_body[:60])))
        rh = {}
        for k, v in req.resp_headers or []:
            rh.setdefault(k.lower(), []).append(v)
        acao = rh.get('access-control-allow-origin')
        if acao is not None:
            if ok is None:
                out.append(V('cors-headers', '%s|acao-with-cors-disabled' %
                             impl, 'cors_allowed_origins=[] but '
                             'Access-Control-Allow-Origin %r was sent' %
                             acao))
            elif acao != [origin] or not ok:
                out.append(V('cors-headers', '%s|acao-over-grants|%s' % (
                    impl, _cfg_shape(cfg)),
                    'Access-Control-Allow-Origin %r for request Origin %r '
                    '(allowed by policy %r: %s)' % (acao, origin, cfg, ok)))
        if ok is None and any(k.startswith('access-control-') for k in rh):
            out.append(V('cors-headers', '%s|cors-header-with-cors-disabled'
                         % impl, 'cors_allowed_origins=[] but CORS headers '
                         '%r were sent' % sorted(
                             k for k in rh if k.startswith(
                                 'access-control-'))))
        if 'access-control-allow-credentials' in rh and not cred:
            out.append(V('cors-headers', '%s|credentials-not-enabled' % impl,
                         'Allow-Credentials sent with cors_credentials off'))
    return out


def _cfg_shape(cfg):
    if cfg is None:
        return 'default'
    if cfg == '*':
        return 'star'
    if cfg == []:
        return 'disabled'
    if isinstance(cfg, str):
        return 'string'
    if isinstance(cfg, dict):
        return 'callable'
    return 'list'


# ===========================================================================
# C14  inbound size and volume limits
# ===========================================================================

def check_limits(h, f=None):
    f = f or Facts(h)
    out = []
    impl = f.impl
    limit = h.world.server.max_http_buffer_size
    pkt_limit = h.world.app_opts.get('max_decode_packets', 16)
    ev_keys = {}
    for e in h.app.events:
        if e['ev'] == 'message':
            ev_keys.setdefault(_key(e['arg']), []).append(e)

    def payloads_of(body_bytes):
        try:
            parts = R.ref_payload_split(body_bytes.decode('utf-8'))
        except (UnicodeDecodeError, R.RefError):
            return []
        vals = []
        for p in parts:
            try:
                pt, d, cert = R.ref_decode(p)
            except R.RefError:
                continue
            if pt == R.MESSAGE and cert == 'exact':
                vals.append(d)
        return vals

    for sid, s in f.sess.items():
        c = s['client']
        if c is None or not s['accepted']:
            continue
        for req in c.posts + [r for r in c.raws if r.method == 'POST']:
            if req.seq_arrive is None or ('sid=' + sid) not in req.query:
                continue
            declared = len(req.body) if req.declared is None \
                else _int(req.declared)
            if declared is None or declared < 0:
                continue
            st = (req.snap_arrive or {}).get(sid)
            live = st is not None and not st['closed'] and not st['closing']
            if impl == 'threaded':
                total = sum(req.reads)
                if total > min(declared, limit):
                    out.append(V('read-bound', '%s|read-more-than-allowed' %
                                 impl, 'POST %d declared %d bytes (limit '
                                 '%d): the server read %d bytes (%r)' % (
                                     req.rid, declared, limit, total,
                                     req.read_calls)))
                if any(n is None or n < 0 or n > min(declared, limit)
                       for n in req.read_calls):
                    out.append(V('read-bound', '%s|unbounded-read-call' %
                                 impl, 'POST %d declared %d bytes (limit '
                                 '%d): read() was called with %r' % (
                                     req.rid, declared, limit,
                                     req.read_calls)))
            if declared > limit:
                for v in payloads_of(req.body):
                    if isinstance(v, str) and len(v) < 3:
                        continue        # not attributable
                    if _key(v) in ev_keys:
                        out.append(V('oversize-not-delivered',
                                     '%s|oversize-post-reached-app' % impl,
                                     'POST %d declared %d > limit %d but '
                                     'its payload %r reached the message '
                                     'handler' % (req.rid, declared, limit,
                                                  _short(v))))
                        break
                if not live:
                    continue
                if req.status is None:
                    if req.t_arrive < f.end - 0.5:
                        out.append(V('oversize-post-400',
                                     '%s|oversize-post-never-answered|%s' %
                                     (impl, k1_reader(h, sid, req.t_arrive,
                                                      req.seq_arrive)),
                                     'POST %d declared %d > limit %d '
                                     'was never answered' % (
                                         req.rid, declared, limit)))
                elif req.status != 400:
                    out.append(V('oversize-post-400',
                                 '%s|oversize-post-status-%s' % (
                                     impl, req.status),
                                 'POST %d declared %d > limit %d was '
                                 'answered %s' % (req.rid, declared, limit,
                                                  req.status)))
                if req.status is not None and not s['disconnect'] and \
                        req.t_arrive < f.end - 0.5:
                    out.append(V('oversize-ends-session',
                                 '%s|oversize-post-session-kept' % impl,
                                 'POST %d declared %d > limit %d but the '
                                 'session got no disconnect event' % (
                                     req.rid, declared, limit)))
            elif declared == limit and live and req.status is not None:
                vals = payloads_of(req.body[:declared])
                try:
                    n_parts = len(R.ref_payload_split(
                        req.body[:declared].decode('utf-8')))
                except (UnicodeDecodeError, R.RefError):
                    n_parts = 10 ** 9
                whole = n_parts <= pkt_limit and not _refused_body(
                    req, pkt_limit, limit)
                try:
                    R.ref_payload_decode(req.body[:declared].decode('utf-8'),
                                         pkt_limit)
                except (R.RefError, UnicodeDecodeError):
                    whole = False
                if whole and req.status != 200 and not f.causes(sid):
                    out.append(V('exact-limit-accepted',
                                 '%s|exact-limit-post-refused' % impl,
                                 'POST %d of exactly the limit (%d bytes) '
                                 'was answered %s' % (req.rid, limit,
                                                      req.status)))
        # frames
        for conn in {id(x): x for x in (f.main_ws(sid),
                                        f.server_upgraded_conn(sid))
                     if x is not None}.values():
            started = conn is c.open_ws
            for (sq, t, d) in conn.recv_s:
                if not started:
                    if d == '5':
                        started = True
                    continue
                if len(d) > limit:
                    try:
                        pt, v, cert = R.ref_decode(d)
                    except R.RefError:
                        continue
                    if pt == R.MESSAGE and _key(v) in ev_keys:
                        out.append(V('oversize-not-delivered',
                                     '%s|oversize-frame-reached-app' % impl,
                                     'a frame of %d > limit %d reached the '
                                     'message handler' % (len(d), limit)))
                    if not s['disconnect'] and t < f.end - 0.5:
                        out.append(V('oversize-ends-session',
                                     '%s|oversize-frame-session-kept' % impl,
                                     'a frame of %d > limit %d at t=%.4f did '
                                     'not end the session' % (len(d), limit,
                                                              t)))
                    break
        for u in c.upgrades:
            for (sq, t, d) in u['conn'].recv_s[:2]:
                if len(d) > limit:
                    try:
                        pt, v, cert = R.ref_decode(d)
                    except R.RefError:
                        continue
                    if pt == R.MESSAGE and _key(v) in ev_keys:
                        out.append(V('oversize-not-delivered',
                                     '%s|oversize-handshake-frame-reached-'
                                     'app' % impl, 'an oversize frame sent '
                                     'during the upgrade handshake reached '
                                     'the message handler'))
    return out


# ===========================================================================
# C19  response transformations
# ===========================================================================

def check_transformations(h, f=None):
    f = f or Facts(h)
    out = []
    impl = f.impl
    cfg = h.plan.get('config', {})
    enabled = cfg.get('http_compression', True)
    threshold = cfg.get('compression_threshold', 1024)
    for c in h.clients:
        for (kind, ref, msg) in c.decode_errors:
            if kind != 'transform':
                continue
            req = h.world.requests[ref]
            j = 'jsonp' if 'j=' in req.query else 'plain'
            shape = msg.split(':')[0][:40]
            out.append(V('lossless', '%s|undecodable-response|%s|%s' % (
                impl, j, shape),
                'client %d could not turn response %d (%s, headers %r) back '
                'into a payload: %s; body starts %r' % (
                    c.idx, ref, j, req.resp_headers, msg,
                    (req.resp_body or b'')[:80])))
    for req in h.world.requests:
        if req.kind != 'http' or req.status is None:
            continue
        ce = [v for k, v in (req.resp_headers or [])
              if k.lower() == 'content-encoding']
        if not ce:
            continue
        coding = ce[0].strip().lower()
        ae = ','.join(v for k, v in req.headers
                      if k.lower() == 'accept-encoding')
        offered = R.offered_encodings(ae)
        if len(ce) > 1:
            out.append(V('labelled', '%s|two-content-encodings' % impl,
                         'response %d declares %r' % (req.rid, ce)))
        if not enabled:
            out.append(V('labelled', '%s|compressed-though-disabled' % impl,
                         'http_compression=False but response %d declares '
                         '%s' % (req.rid, coding)))
        if coding not in offered and '*' not in offered:
            q0 = 'q=0' in ae.replace(' ', '')
            out.append(V('labelled', '%s|coding-not-offered|%s' % (
                impl, 'q0' if q0 else 'absent'),
                'response %d declares Content-Encoding %s but the request '
                'offered %r (Accept-Encoding: %r)' % (
                    req.rid, coding, sorted(offered), ae)))
        try:
            raw = R.browser_decode(req.status, req.resp_headers,
                                   req.resp_body, None)
            size = len(raw.encode('utf-8'))
            if size < threshold:
                out.append(V('labelled', '%s|compressed-below-threshold' %
                             impl, 'response %d: body of %d bytes was '
                             'compressed, threshold is %d' % (
                                 req.rid, size, threshold)))
        except R.RefError:
            pass
    return out

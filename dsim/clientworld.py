"""Client worlds: the real engineio.Client / engineio.AsyncClient with their
HTTP and WebSocket libraries replaced by in-process fakes that talk to a
"server world" (the real servers of worlds.py, or the ScriptedServer).

The fakes copy the library behaviour the clients rely on; each class says
which.  They are the trusted base of the client-side checks.
"""
import asyncio
import json as _json
import queue as _stdqueue
import urllib.parse

from . import kernel as K
from .worlds import CaptureLogger, NullHandler, _brief

import engineio  # noqa: E402  (path set up by worlds.py)
import engineio.client as _eio_client
import engineio.async_client as _eio_async_client
import engineio.base_client as _eio_base_client
import aiohttp as _real_aiohttp


def split_url(url):
    u = urllib.parse.urlsplit(url)
    scheme = {'ws': 'http', 'wss': 'https'}.get(u.scheme, u.scheme)
    return scheme, u.netloc, u.path or '/', u.query


# ===========================================================================
# fake ``requests``
# ===========================================================================

class RequestException(IOError):
    pass


class ReqConnectionError(RequestException):
    pass


class ReqTimeout(RequestException):
    pass


class _ReqExceptions:
    RequestException = RequestException
    ConnectionError = ReqConnectionError
    Timeout = ReqTimeout
    ReadTimeout = ReqTimeout


class FakeResponse:
    """requests.Response: status_code, content, json() raising a
    json.JSONDecodeError subclass on invalid JSON."""

    def __init__(self, req):
        self.status_code = req.status
        self.content = req.resp_body or b''
        self.headers = dict(req.resp_headers or [])
        self.req = req

    def json(self):
        return _json.loads(self.content.decode('utf-8'))

    @property
    def text(self):
        return self.content.decode('utf-8', 'replace')


class FakeSession:
    """requests.Session: request() blocks the calling thread until the
    response arrives, the timeout expires (requests.exceptions.Timeout) or
    the connection is refused (requests.exceptions.ConnectionError)."""

    def __init__(self, net=None, cidx=0):
        self.net = net or FakeRequestsModule.net
        self.cidx = cidx if net else FakeRequestsModule.cidx
        self.cookies = []
        self.auth = None
        self.cert = None
        self.proxies = {}
        self.verify = True
        self.calls = []

    def request(self, method, url, headers=None, data=None, timeout=None):
        k = self.net.k
        th = k.current
        if th is None:
            raise K.HarnessError('requests call from kernel context')
        scheme, netloc, path, query = split_url(url)
        body = data if data is not None else b''
        if isinstance(body, str):
            body = body.encode('utf-8')
        hdrs = [(a, b) for a, b in (headers or {}).items()]
        if not any(a.lower() == 'host' for a, b in hdrs):
            hdrs.append(('Host', netloc))
        box = {}

        def cb(req):
            box['resp'] = req
            if box.get('waiting'):
                k.wake(th, 'response')
        k.yield_point('http.request')
        verdict = self.net.link_verdict(self.cidx, 'http')
        if verdict == 'refuse':
            self.net.fault('conn_refused')
            raise ReqConnectionError('connection refused (simulated)')
        req = self.net.http(self.cidx, method, query, hdrs, body, cb=cb,
                            path=path, scheme=scheme, tag='client',
                            lose='req' if verdict == 'lose_req' else (
                                'resp' if verdict == 'lose_resp' else None))
        req.url = url
        self.calls.append(req)
        if 'resp' not in box:
            box['waiting'] = True
            r = k.block(timeout, 'http.response')
            box['waiting'] = False
            if r == 'timeout' and 'resp' not in box:
                self.net.fault('req_timeout')
                req.client_gave_up = k.now
                raise ReqTimeout('read timed out (simulated)')
        resp = box['resp']
        if resp.status is None or resp.status == 0:
            raise ReqConnectionError('connection closed without response '
                                     '(simulated)')
        return FakeResponse(resp)

    def close(self):
        pass


class FakeRequestsModule:
    net = None
    cidx = 0
    exceptions = _ReqExceptions
    Session = FakeSession


# ===========================================================================
# fake ``websocket`` (websocket-client)
# ===========================================================================

class WebSocketException(Exception):
    pass


class WebSocketConnectionClosedException(WebSocketException):
    pass


class WebSocketTimeoutException(WebSocketException):
    pass


class WebSocketBadStatusException(WebSocketException):
    pass


class FakeWebSocket(NullHandler):
    """websocket.WebSocket as returned by create_connection(): send(),
    send_binary(), recv() (str or bytes; WebSocketTimeoutException after
    settimeout(); WebSocketConnectionClosedException once closed), close(),
    connected."""

    def __init__(self, net, cidx):
        self.net = net
        self.k = net.k
        self.cidx = cidx
        self.conn = None
        self.connected = False
        self.inbox = []
        self.waiter = None
        self.timeout = None
        self.opened = None
        self.status = None
        self.closed_by_peer = False

    # -- callbacks from the network (kernel context) -------------------------
    def ws_opened(self, conn):
        self.opened = True
        self.connected = True
        self._wake('opened')

    def ws_refused(self, conn, status, body):
        self.opened = False
        self.status = status
        self._wake('refused')

    def ws_frame(self, conn, data, seq):
        self.inbox.append(data)
        self._wake('frame')

    def ws_closed(self, conn):
        self.closed_by_peer = True
        self.connected = False
        self._wake('closed')

    def _wake(self, why):
        if self.waiter is not None:
            self.k.wake(self.waiter, why)

    # -- API ---------------------------------------------------------------------
    def settimeout(self, t):
        self.timeout = t

    def send(self, data):
        self.k.yield_point('ws.send')
        if not self.connected:
            raise WebSocketConnectionClosedException('socket is already '
                                                     'closed.')
        self.conn.send(data)

    def send_binary(self, data):
        self.k.yield_point('ws.send')
        if not self.connected:
            raise WebSocketConnectionClosedException('socket is already '
                                                     'closed.')
        self.conn.send(bytes(data))

    def recv(self):
        k = self.k
        k.yield_point('ws.recv')
        endtime = None if self.timeout is None else k.now + self.timeout
        while not self.inbox:
            if not self.connected:
                raise WebSocketConnectionClosedException(
                    'Connection to remote host was lost.')
            remaining = None if endtime is None else endtime - k.now
            if remaining is not None and remaining <= 0:
                raise WebSocketTimeoutException('timed out')
            self.waiter = k.current
            k.block(remaining, 'ws.recv')
            self.waiter = None
        return self.inbox.pop(0)

    def close(self, *a, **kw):
        self.k.yield_point('ws.close')
        if self.connected:
            self.connected = False
            self.conn.close()
            self._wake('closed-locally')


class FakeWebsocketModule:
    net = None
    cidx = 0
    WebSocketException = WebSocketException
    WebSocketConnectionClosedException = WebSocketConnectionClosedException
    WebSocketTimeoutException = WebSocketTimeoutException
    WebSocketBadStatusException = WebSocketBadStatusException

    @classmethod
    def create_connection(cls, url, header=None, cookie=None,
                          enable_multithread=True, timeout=None, **kw):
        net = cls.net
        k = net.k
        if k.current is None:
            raise K.HarnessError('create_connection from kernel context')
        scheme, netloc, path, query = split_url(url)
        hdrs = [(a, b) for a, b in (header or {}).items()] \
            if isinstance(header, dict) else []
        if not any(a.lower() == 'host' for a, b in hdrs):
            hdrs.append(('Host', netloc))
        ws = FakeWebSocket(net, cls.cidx)
        k.yield_point('ws.connect')
        verdict = net.link_verdict(cls.cidx, 'ws')
        if verdict == 'refuse':
            net.fault('conn_refused')
            raise ConnectionRefusedError('connection refused (simulated)')
        ws.conn = net.ws_connect(cls.cidx, query, hdrs, handler=ws, path=path,
                                 scheme=scheme, tag='client')
        ws.conn.url = url
        ws.conn.req.url = url
        if verdict == 'blackhole':
            ws.conn.blackhole()
        ws.waiter = k.current
        if ws.opened is None:
            r = k.block(timeout, 'ws.handshake')
            if r == 'timeout' and ws.opened is None:
                ws.waiter = None
                ws.conn.drop()
                raise WebSocketTimeoutException('handshake timed out')
        ws.waiter = None
        if not ws.opened:
            raise WebSocketBadStatusException(
                'Handshake status %s' % ws.status)
        ws.timeout = timeout
        return ws


# ===========================================================================
# fake aiohttp.ClientSession
# ===========================================================================

class _ReqInfo:
    def __init__(self, url):
        self.real_url = url
        self.url = url
        self.method = 'GET'
        self.headers = {}


class FakeAioResponse:
    """aiohttp.ClientResponse: status, read(), json() (ContentTypeError when
    the content type is not JSON, json.JSONDecodeError on invalid JSON)."""

    def __init__(self, req, url):
        self.status = req.status
        self._body = req.resp_body or b''
        self.headers = dict(req.resp_headers or [])
        self._url = url

    async def read(self):
        return self._body

    async def text(self):
        return self._body.decode('utf-8', 'replace')

    async def json(self):
        ctype = ''
        for k, v in self.headers.items():
            if k.lower() == 'content-type':
                ctype = v.lower()
        if 'json' not in ctype:
            raise _real_aiohttp.ContentTypeError(
                _ReqInfo(self._url), (), status=self.status,
                message='Attempt to decode JSON with unexpected mimetype: %s'
                % ctype, headers=None)
        return _json.loads(self._body.decode('utf-8'))

    def release(self):
        pass


class FakeAioWS(NullHandler):
    """aiohttp.ClientWebSocketResponse: send_str, send_bytes, receive()
    returning WSMessage (TEXT / BINARY, then CLOSED with data None), close().
    Writing to a closed socket raises ConnectionResetError."""

    def __init__(self, net, cidx, loop):
        self.net = net
        self.k = net.k
        self.cidx = cidx
        self.loop = loop
        self.conn = None
        self.inbox = []
        self.fut = None
        self.open_fut = loop.create_future()
        self.closed = False
        self.peer_closed = False

    def ws_opened(self, conn):
        if not self.open_fut.done():
            self.open_fut.set_result(True)

    def ws_refused(self, conn, status, body):
        if not self.open_fut.done():
            self.open_fut.set_result(status or -1)

    def ws_frame(self, conn, data, seq):
        self.inbox.append(data)
        self._wake()

    def ws_closed(self, conn):
        self.peer_closed = True
        self._wake()

    close_fut = None

    def _wake(self):
        if self.fut is not None and not self.fut.done():
            self.fut.set_result(None)
        if self.close_fut is not None and not self.close_fut.done():
            self.close_fut.set_result(None)

    slow = 0

    async def _maybe_blocked(self):
        # a write to a socket whose buffer is full suspends the writing task
        # (as aiohttp's does while it drains): other tasks run meanwhile
        if self.slow and self.k.tape.chance(self.slow, 8, 'ws_write_blocked'):
            self.net.fault('ws_write_blocked')
            await asyncio.sleep(
                (1 + self.k.tape.draw(3, 'ws_write_blocked_for')) * K.TICK)

    async def send_str(self, data):
        await self._maybe_blocked()
        if self.closed or self.peer_closed:
            raise ConnectionResetError('Cannot write to closing transport')
        self.conn.send(data)

    async def send_bytes(self, data):
        await self._maybe_blocked()
        if self.closed or self.peer_closed:
            raise ConnectionResetError('Cannot write to closing transport')
        self.conn.send(bytes(data))

    async def receive(self, timeout=None):
        while not self.inbox:
            if self.closed or self.peer_closed:
                return _real_aiohttp.WSMessage(
                    _real_aiohttp.WSMsgType.CLOSED, None, None)
            self.fut = self.loop.create_future()
            try:
                await self.fut
            finally:
                self.fut = None
        data = self.inbox.pop(0)
        if isinstance(data, (bytes, bytearray)):
            return _real_aiohttp.WSMessage(_real_aiohttp.WSMsgType.BINARY,
                                           bytes(data), None)
        return _real_aiohttp.WSMessage(_real_aiohttp.WSMsgType.TEXT, data,
                                       None)

    CLOSE_TIMEOUT = 10.0     # aiohttp's default for ws_connect(timeout=)

    async def close(self, *a, **kw):
        if not self.closed:
            self.closed = True
            self.conn.close()
            self._wake()
            if self.slow and not self.peer_closed:
                # aiohttp sends its close frame and then waits for the
                # peer's, for up to the close timeout: the calling task is
                # suspended meanwhile
                self.net.fault('ws_close_waits_for_peer')
                t_end = self.loop.time() + self.CLOSE_TIMEOUT
                while not self.peer_closed and self.loop.time() < t_end:
                    self.close_fut = self.loop.create_future()
                    try:
                        await asyncio.wait_for(self.close_fut,
                                               t_end - self.loop.time())
                    except asyncio.TimeoutError:
                        break
                    finally:
                        self.close_fut = None
        return True


class _CookieJar:
    def __init__(self):
        self.cookies = {}

    def update_cookies(self, cookies, response_url=None):
        self.cookies.update(cookies)


class FakeClientSession:
    net = None
    cidx = 0

    def __init__(self, *a, **kw):
        self.closed = False
        self.cookie_jar = _CookieJar()
        self.calls = []

    async def _request(self, method, url, headers=None, data=None,
                       timeout=None, ssl=None, **kw):
        net = type(self).net
        k = net.k
        loop = asyncio.get_running_loop()
        scheme, netloc, path, query = split_url(url)
        body = data if data is not None else b''
        if isinstance(body, str):
            body = body.encode('utf-8')
        hdrs = [(a, b) for a, b in (headers or {}).items()]
        if not any(a.lower() == 'host' for a, b in hdrs):
            hdrs.append(('Host', netloc))
        fut = loop.create_future()

        def cb(req):
            if not fut.done():
                fut.set_result(req)
        verdict = net.link_verdict(type(self).cidx, 'http')
        if verdict == 'refuse':
            net.fault('conn_refused')
            raise _real_aiohttp.ClientConnectionError(
                'Cannot connect to host (simulated)')
        req = net.http(type(self).cidx, method, query, hdrs, body, cb=cb,
                       path=path, scheme=scheme, tag='client',
                       lose='req' if verdict == 'lose_req' else (
                           'resp' if verdict == 'lose_resp' else None))
        req.url = url
        self.calls.append(req)
        total = getattr(timeout, 'total', timeout)
        try:
            resp = await asyncio.wait_for(fut, total)
        except asyncio.TimeoutError:
            net.fault('req_timeout')
            req.client_gave_up = k.now
            raise
        if resp.status is None or resp.status == 0:
            raise _real_aiohttp.ServerDisconnectedError()
        return FakeAioResponse(resp, url)

    async def get(self, url, **kw):
        return await self._request('GET', url, **kw)

    async def post(self, url, **kw):
        return await self._request('POST', url, **kw)

    async def ws_connect(self, url, timeout=None, headers=None, ssl=None,
                         **kw):
        net = type(self).net
        loop = asyncio.get_running_loop()
        scheme, netloc, path, query = split_url(url)
        hdrs = [(a, b) for a, b in (headers or {}).items()]
        if not any(a.lower() == 'host' for a, b in hdrs):
            hdrs.append(('Host', netloc))
        verdict = net.link_verdict(type(self).cidx, 'ws')
        if verdict == 'refuse':
            net.fault('conn_refused')
            class _Key:
                host, port, ssl, is_ssl = netloc, None, None, False
            raise _real_aiohttp.ClientConnectorError(
                _Key(), OSError(111, 'Connection refused (simulated)'))
        ws = FakeAioWS(net, type(self).cidx, loop)
        ws.slow = getattr(type(self), 'slow_ws_write', 0)
        ws.conn = net.ws_connect(type(self).cidx, query, hdrs, handler=ws,
                                 path=path, scheme=scheme, tag='client')
        ws.conn.url = url
        ws.conn.req.url = url
        if verdict == 'blackhole':
            ws.conn.blackhole()
        total = getattr(timeout, 'total', timeout)
        try:
            ok = await asyncio.wait_for(asyncio.shield(ws.open_fut), total)
        except asyncio.TimeoutError:
            ws.conn.drop()
            raise _real_aiohttp.ServerTimeoutError('handshake timed out')
        if ok == -1:
            # no HTTP answer at all: the TCP connection could not be made
            # (what aiohttp raises then is ClientConnectorError, a
            # ClientOSError / ClientConnectionError, not a handshake error)
            class _Key:
                host, port, ssl, is_ssl = netloc, None, None, False
            raise _real_aiohttp.ClientConnectorError(
                _Key(), OSError(111, 'Connection refused (simulated)'))
        if ok is not True:
            raise _real_aiohttp.WSServerHandshakeError(
                _ReqInfo(url), (), status=ok if isinstance(ok, int) else 400,
                message='Invalid response status', headers=None)
        return ws

    async def close(self):
        self.closed = True


class AiohttpProxy:
    """Stands in for the ``aiohttp`` module inside engineio.async_client:
    everything is the real aiohttp except ClientSession."""

    def __init__(self, session_cls):
        self.ClientSession = session_cls

    def __getattr__(self, name):
        return getattr(_real_aiohttp, name)


# ===========================================================================
# sim namespaces for the threaded client
# ===========================================================================

class _ThreadingNS:
    def __init__(self, k):
        self._k = k
        self._main = object()

    def Thread(self, target=None, args=(), kwargs=None, daemon=None,
               name=None, group=None):
        return K.SimThread(self._k, target=target, args=args,
                           kwargs=kwargs or {}, name=name)

    def Event(self):
        return K.SimEvent(self._k)

    def Lock(self):
        return K.SimLock(self._k)

    def current_thread(self):
        return self._k.current or self._main

    def main_thread(self):
        return self._main


class _QueueNS:
    Empty = _stdqueue.Empty

    def __init__(self, k):
        self._k = k

    def Queue(self, *a, **kw):
        return K.SimQueue(kernel=self._k)


# ===========================================================================
# the application on top of a client
# ===========================================================================

class ClientApp:
    """Handlers + scripted calls for one engineio client object."""

    def __init__(self, world, idx, spec):
        self.w = world
        self.k = world.k
        self.idx = idx
        self.spec = spec
        self.events = []        # dicts seq,t,ev,arg
        self.ops = []           # call records
        self.client = None
        self.counts = {'connect': 0, 'message': 0, 'disconnect': 0}

    def _rec(self, ev, arg=None):
        if self.k.killing:
            return None
        n = self.counts[ev]
        self.counts[ev] = n + 1
        s = self.k.ev('capp.' + ev, c=self.idx, arg=_brief(arg))
        c = self.client
        rec = {'seq': s, 't': self.k.now, 'ev': ev, 'arg': arg, 'n': n,
               'state': c.state, 'sid': c.sid,
               'transport': c.current_transport,
               'ping_interval': c.ping_interval,
               'ping_timeout': c.ping_timeout}
        self.events.append(rec)
        return rec

    def action_for(self, ev, n):
        for a in self.spec.get('handler_actions', []):
            if a.get('event') == ev and a.get('nth', n) == n:
                return a
        return None


# ===========================================================================
# worlds
# ===========================================================================

class ClientWorldBase:
    def __init__(self, net, idx, spec):
        self.net = net              # the server-side world (real or scripted)
        self.k = net.k
        self.idx = idx
        self.spec = spec
        self.logs = []
        self.app = ClientApp(self, idx, spec)
        self._saved = []

    def _patch(self, obj, attr, value):
        self._saved.append((obj, attr, getattr(obj, attr)))
        setattr(obj, attr, value)

    def close(self):
        for obj, attr, val in reversed(self._saved):
            setattr(obj, attr, val)
        self._saved = []
        try:
            while self.client in _eio_base_client.connected_clients:
                _eio_base_client.connected_clients.remove(self.client)
        except Exception:
            pass

    def op_record(self, op):
        rec = {'id': len(self.app.ops), 'op': op, 'seq_start': None,
               't_start': None, 'seq_end': None, 't_end': None, 'exc': None,
               'exc_type': None, 'ret': None, 'state_before': None,
               'state_after': None, 'sid_after': None}
        self.app.ops.append(rec)
        return rec

    def _call_kwargs(self, op):
        kw = {}
        for key in ('headers', 'transports', 'engineio_path'):
            if op.get(key) is not None:
                kw[key] = op[key]
        return kw


class ThreadedClientWorld(ClientWorldBase):
    kind = 'threaded'

    def __init__(self, net, idx, spec):
        super().__init__(net, idx, spec)
        k = self.k
        if not K._kernel_stack or K._kernel_stack[-1] is not k:
            K.push_kernel(k)
            self._pushed = True
        else:
            self._pushed = False
        tm = K.SimTimeModule(k)
        self._patch(_eio_client, 'threading', _ThreadingNS(k))
        self._patch(_eio_client, 'queue', _QueueNS(k))
        self._patch(_eio_client, 'time', tm)
        self._patch(_eio_base_client, 'time', tm)

        class _Req(FakeRequestsModule):
            pass
        _Req.net = net
        _Req.cidx = idx

        class _Sess(FakeSession):
            def __init__(s):
                FakeSession.__init__(s, net, idx)
        _Req.Session = _Sess

        class _WS(FakeWebsocketModule):
            pass
        _WS.net = net
        _WS.cidx = idx
        self._patch(_eio_client, 'requests', _Req)
        self._patch(_eio_client, 'websocket', _WS)
        self.client = engineio.Client(
            logger=CaptureLogger(k, self.logs), handle_sigint=False,
            request_timeout=spec.get('request_timeout', 5),
            timestamp_requests=spec.get('timestamp_requests', True))
        self.app.client = self.client
        app = self.app
        client = self.client

        def on_connect():
            rec = app._rec('connect')
            a = rec and app.action_for('connect', rec['n'])
            if a:
                self._act(a)

        def on_message(data):
            rec = app._rec('message', data)
            if rec is not None and k.current is not None:
                rec['spawn_seq'] = k.current.spawn_seq
            a = rec and app.action_for('message', rec['n'])
            if a:
                self._act(a)

        def on_disconnect(reason):
            rec = app._rec('disconnect', reason)
            a = rec and app.action_for('disconnect', rec['n'])
            if a:
                self._act(a)
        client.on('connect', on_connect)
        client.on('message', on_message)
        client.on('disconnect', on_disconnect)

    def _act(self, a):
        act = a.get('action')
        self.net.fault('handler_' + str(act))
        if act == 'raise':
            raise RuntimeError('client handler failure (injected)')
        if act == 'disconnect':
            self.client.disconnect(abort=a.get('abort', False))
        elif act == 'send':
            self.client.send(a.get('data', 'from-handler'))
        elif act == 'sleep':
            K.sim_sleep(a.get('s', 0.25), self.k)

    def close(self):
        super().close()
        if self._pushed:
            K.pop_kernel()

    def start_op(self, op):
        rec = self.op_record(op)
        c = self.client

        def run():
            rec['seq_start'] = self.k.ev('cop.start', c=self.idx,
                                         op=op['op'])
            rec['t_start'] = self.k.now
            rec['state_before'] = c.state
            try:
                name = op['op']
                if name == 'connect':
                    rec['ret'] = c.connect(op['url'],
                                           **self._call_kwargs(op))
                elif name == 'send':
                    from . import refmodel as R
                    c.send(R.spec_to_value(op['data']))
                elif name == 'disconnect':
                    c.disconnect(abort=op.get('abort', False))
                elif name == 'wait':
                    c.wait()
            except K.SimKilled:
                raise
            except BaseException as e:  # noqa
                rec['exc'] = '%s: %s' % (type(e).__name__, e)
                rec['exc_type'] = type(e).__name__
                rec['exc_is_connection_error'] = isinstance(
                    e, engineio.exceptions.ConnectionError)
            if self.k.killing:
                return
            rec['seq_end'] = self.k.ev('cop.end', c=self.idx, op=op['op'],
                                       exc=rec['exc_type'])
            rec['t_end'] = self.k.now
            rec['state_after'] = c.state
            rec['sid_after'] = c.sid
            rec['transport_after'] = c.current_transport
            rec['pi_after'] = c.ping_interval
            rec['pt_after'] = c.ping_timeout
        rec['thread'] = self.k.spawn(run, name='C%d.%d:%s' % (
            self.idx, rec['id'], op['op']))
        return rec

    def tasks_alive(self):
        c = self.client
        out = []
        for name in ('read_loop_task', 'write_loop_task'):
            t = getattr(c, name, None)
            if t is not None and hasattr(t, 'is_alive') and t.is_alive():
                out.append(name)
        return out


class AsyncClientWorld(ClientWorldBase):
    kind = 'asyncio'

    def __init__(self, net, idx, spec):
        super().__init__(net, idx, spec)
        k = self.k
        self.loop = k.loop or K.SimLoop(k)
        tm = K.SimTimeModule(k)
        self._patch(_eio_base_client, 'time', tm)

        class _Sess(FakeClientSession):
            pass
        _Sess.net = net
        _Sess.cidx = idx
        _Sess.slow_ws_write = spec.get('slow_ws_write', 0)
        self._patch(_eio_async_client, 'aiohttp', AiohttpProxy(_Sess))
        self.client = engineio.AsyncClient(
            logger=CaptureLogger(k, self.logs), handle_sigint=False,
            request_timeout=spec.get('request_timeout', 5),
            timestamp_requests=spec.get('timestamp_requests', True))
        self.app.client = self.client
        app = self.app
        client = self.client
        coro = spec.get('coroutine_handlers', True)

        async def a_connect():
            rec = app._rec('connect')
            a = rec and app.action_for('connect', rec['n'])
            if a:
                await self._act(a)

        async def a_message(data):
            rec = app._rec('message', data)
            a = rec and app.action_for('message', rec['n'])
            if a:
                await self._act(a)

        async def a_disconnect(reason):
            rec = app._rec('disconnect', reason)
            a = rec and app.action_for('disconnect', rec['n'])
            if a:
                await self._act(a)

        def s_connect():
            app._rec('connect')

        def s_message(data):
            app._rec('message', data)

        def s_disconnect(reason):
            app._rec('disconnect', reason)
        if coro:
            client.on('connect', a_connect)
            client.on('message', a_message)
            client.on('disconnect', a_disconnect)
        else:
            client.on('connect', s_connect)
            client.on('message', s_message)
            client.on('disconnect', s_disconnect)

    async def _act(self, a):
        act = a.get('action')
        self.net.fault('handler_' + str(act))
        if act == 'raise':
            raise RuntimeError('client handler failure (injected)')
        if act == 'disconnect':
            await self.client.disconnect(abort=a.get('abort', False))
        elif act == 'send':
            await self.client.send(a.get('data', 'from-handler'))
        elif act == 'sleep':
            await asyncio.sleep(a.get('s', 0.25))

    def start_op(self, op):
        rec = self.op_record(op)
        c = self.client

        async def run():
            rec['seq_start'] = self.k.ev('cop.start', c=self.idx,
                                         op=op['op'])
            rec['t_start'] = self.k.now
            rec['state_before'] = c.state
            try:
                name = op['op']
                if name == 'connect':
                    rec['ret'] = await c.connect(op['url'],
                                                 **self._call_kwargs(op))
                elif name == 'send':
                    from . import refmodel as R
                    await c.send(R.spec_to_value(op['data']))
                elif name == 'disconnect':
                    await c.disconnect(abort=op.get('abort', False))
                elif name == 'wait':
                    await c.wait()
            except asyncio.CancelledError:
                raise
            except BaseException as e:  # noqa
                rec['exc'] = '%s: %s' % (type(e).__name__, e)
                rec['exc_type'] = type(e).__name__
                rec['exc_is_connection_error'] = isinstance(
                    e, engineio.exceptions.ConnectionError)
            if self.k.killing:
                return
            rec['seq_end'] = self.k.ev('cop.end', c=self.idx, op=op['op'],
                                       exc=rec['exc_type'])
            rec['t_end'] = self.k.now
            rec['state_after'] = c.state
            rec['sid_after'] = c.sid
            rec['transport_after'] = c.current_transport
            rec['pi_after'] = c.ping_interval
            rec['pt_after'] = c.ping_timeout
        rec['thread'] = self.loop.spawn(run(), 'C%d.%d:%s' % (
            self.idx, rec['id'], op['op']))
        return rec

    def tasks_alive(self):
        c = self.client
        out = []
        for name in ('read_loop_task', 'write_loop_task'):
            t = getattr(c, name, None)
            if t is not None and hasattr(t, 'done') and not t.done():
                out.append(name)
        return out


def make_client_world(kind, net, idx, spec):
    if kind == 'threaded':
        return ThreadedClientWorld(net, idx, spec)
    return AsyncClientWorld(net, idx, spec)

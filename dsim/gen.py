"""Seeded generators for server-scenario plans (swarm style: every run draws
its own feature subset, sizes and timings)."""
from .kernel import TICK

CONFORMANT_UPGRADE = [['send', '2probe'], ['wait_frame'], ['pause_poll'],
                      ['wait_poll'], ['send', '5']]


def ticks(rng, lo, hi):
    """A time in [lo, hi] seconds on the tick grid."""
    a = int(lo / TICK)
    b = max(a, int(hi / TICK))
    return rng.randint(a, b) * TICK


class Payloads:
    """Unique payloads: every value embeds a per-plan counter so that each
    receipt is attributable to exactly one send."""

    def __init__(self, rng, kinds=('s', 'j', 'b'), prefix='m'):
        self.rng = rng
        self.n = 0
        self.kinds = kinds
        self.prefix = prefix

    def next(self, kind=None):
        self.n += 1
        k = kind or self.rng.choice(self.kinds)
        r = self.rng
        # the two payloads that cannot carry a counter: the empty text and
        # the empty binary message, at most once each per stream
        if kind is None and r.random() < 0.04:
            used = self.__dict__.setdefault('_empties', set())
            e = r.choice(['s', 'b'])
            if e in self.kinds and e not in used:
                used.add(e)
                return {'k': e, 'v': ''}
        if k == 's':
            tail = r.choice(['', 'x', ' hello', '"q"', '{"a":1}', '[1]', '12',
                             'null', 'é中', 'b64', '\x1fz', '1e5',
                             'tab\there', 'a' * r.randint(0, 40)])
            return {'k': 's', 'v': '%s%d:%s' % (self.prefix, self.n, tail)}
        if k == 'j':
            v = r.choice([{'n': self.n}, {'n': self.n, 'l': [1, 2.5, None]},
                          [self.prefix, self.n],
                          {'n': self.n, 's': 'a"b\\c\n'},
                          [self.n, {'deep': [[], {}]}]])
            return {'k': 'j', 'v': v}
        data = self.n.to_bytes(4, 'big') + bytes(
            r.getrandbits(8) for _ in range(r.randint(0, 12)))
        return {'k': 'b', 'v': data.hex()}


DEFAULT_PROFILE = {
    'servers': ['threaded', 'asyncio'],
    'I': [1.0, 2.0, 4.0],
    'T': [0.5, 1.0, 2.0],
    'max_sessions': 3,
    'p_ws_open': 0.3,
    'p_upgrade': 0.5,
    'p_sabotage': 0.3,
    'p_second_upgrade': 0.1,
    'sends': (0, 8),
    'client_msgs': (0, 5),
    'p_end': 0.6,
    'end_kinds': ['close_packet', 'ws_close', 'drop', 'vanish',
                  'close_packet'],
    'p_app_disconnect': 0.25,
    'p_disconnect_all': 0.05,
    'p_handler_fault': 0.2,
    'handler_actions': ['raise', 'raise', 'sleep', 'send'],
    'p_reject': 0.15,
    'reject_kinds': ['false', 'zero', 'empty', 'text', 'dict', 'list',
                     'raise'],
    'p_ws_fault': 0.15,
    'p_overlap_polls': 0.2,
    'p_no_monitor': 0.15,
    'async_handlers': [True, False],
    'p_pong_misbehave': 0.15,
    'p_ties': 0.3,
    'payload_kinds': ('s', 'j', 'b'),
    'p_jsonp': 0.0,
    'allow_polling_app_disconnect': 0.1,   # K1: keep rare
    'span': 6.0,
    'p_stop_polling': 0.05,
    'p_raw_bodies': 0.0,
    'raw_bad': 0.15,
    'p_late_open': 0.1,
}


def profile(**over):
    p = dict(DEFAULT_PROFILE)
    p.update(over)
    return p


# ---------------------------------------------------------------------------
# line granularity (threaded server / threaded client only)
# ---------------------------------------------------------------------------
# functions of the threaded code paths that read or write state shared between
# threads; a run in line mode pre-empts only inside one to three of them
LINE_SERVER = ['close', 'send', 'receive', 'poll', 'handle_get_request',
               'handle_post_request', '_websocket_handler', 'writer',
               'websocket_wait', 'check_ping_timeout', '_send_ping',
               'schedule_ping', 'disconnect', '_handle_connect',
               '_service_task', '_trigger_event', 'run_handler',
               '_get_socket', '_upgrade_websocket', 'handle_request',
               'send_packet', 'transport', 'get_session', 'save_session']
LINE_CLIENT = ['_leave_connected_state', '_write_loop', '_read_loop_polling', '_read_loop_websocket',
               '_receive_packet', '_send_packet', 'send', 'disconnect',
               '_reset', 'connect', '_connect_polling', '_connect_websocket',
               '_trigger_event', 'run_handler', 'wait', '_send_request']


def line_decorate(rng, plan, hot=None, pool=None, stall=0.0,
                  stalls=(2, 8, 8, 32)):
    """Turn ``plan`` into a line-granularity run (kernel.enable_lines)."""
    pool = pool or LINE_SERVER
    r = rng.random()
    if r < 0.6 and hot:
        spec = {'mean': rng.choice([1, 1, 2]), 'focus': [rng.choice(hot)]}
    elif r < 0.9:
        spec = {'mean': rng.choice([1, 2, 4]),
                'focus': sorted(rng.sample(pool, rng.choice([1, 2, 3])))}
    else:
        spec = {'mean': rng.choice([4, 8, 16]), 'focus': None}
    spec['max'] = rng.choice([16, 64, 1000])
    plan['line'] = spec
    if stall and rng.random() < stall:
        # the pre-empted thread is kept away for a few ticks of virtual time
        # (what an OS thread that lost the CPU looks like from outside); a
        # handful of such stalls, inside chosen functions
        spec['stall'] = rng.choice(list(stalls))
        spec['max'] = rng.choice([1, 2, 4])
        spec['mean'] = rng.choice([2, 4, 8, 16])
        if not spec.get('focus'):
            spec['focus'] = sorted(rng.sample(pool, 2))
        return plan
    fl = rng.choice([None, 0, 0, 0, 1])
    if fl is not None:
        plan['fixed_latency'] = fl
    return plan


SABOTAGE = [
    [['send', '2nope'], ['delay', 4]],
    [['send', '4hello'], ['delay', 4]],
    [['send', '5'], ['delay', 4]],
    [['send', '3probe'], ['delay', 4]],
    [['send', '2'], ['delay', 4]],
    [['send', {'hex': '00010203'}], ['delay', 4]],
    [['close']],
    [['drop']],
    [['delay', 6], ['close']],
    [['send', '2probe'], ['wait_frame'], ['send', '4x'], ['delay', 4]],
    [['send', '2probe'], ['wait_frame'], ['send', '2probe'], ['delay', 4]],
    [['send', '2probe'], ['wait_frame'], ['close']],
    [['send', '2probe'], ['wait_frame'], ['drop']],
    [['send', '2probe'], ['wait_frame'], ['delay', 8], ['close']],
    [['send', '2probe'], ['wait_frame'], ['send', '6'], ['delay', 4]],
    [['send', '2probe'], ['wait_frame'], ['send', {'hex': '35'}],
     ['delay', 4]],
    # a frame that is half a probe, followed by UPGRADE
    [['send', '2nope'], ['delay', 2], ['send', '5'], ['delay', 4]],
    [['send', '2'], ['delay', 2], ['send', '5'], ['delay', 4]],
    [['send', '4probe'], ['delay', 2], ['send', '5'], ['delay', 4]],
    [['send', '3probe'], ['delay', 2], ['send', '5'], ['delay', 4]],
    [['send', '2Probe'], ['delay', 2], ['send', '5'], ['delay', 4]],
    # correct, but without pausing the poll loop first (legal for a client)
    [['send', '2probe'], ['wait_frame'], ['send', '5']],
    [['send', '2probe'], ['wait_frame'], ['delay', 3], ['send', '5']],
]
# handshakes that are held open (the client may vanish in the middle)
SABOTAGE_STALL = [
    [['send', '2probe'], ['wait_frame'], ['delay', 20000]],
    [['delay', 20000]],
    [['send', '2probe'], ['wait_frame'], ['blackhole'], ['delay', 20000]],
]
# frames that cannot be decoded at all (known weak spot, kept separate so that
# a profile can switch them on)
SABOTAGE_UNDECODABLE = [
    [['send', ''], ['delay', 4]],
    [['send', 'x'], ['delay', 4]],
    [['send', '2probe'], ['wait_frame'], ['send', ''], ['delay', 4]],
    [['send', '2probe'], ['wait_frame'], ['send', 'zz'], ['delay', 4]],
]


def gen_server_plan(rng, prof=None):
    p = prof or DEFAULT_PROFILE
    server = rng.choice(p['servers'])
    I = rng.choice(p['I'])
    T = rng.choice(p['T'])
    span = p['span']
    pay = Payloads(rng, p['payload_kinds'], 'm')
    cpay = Payloads(rng, p['payload_kinds'], 'c')
    cfg = {'ping_interval': I, 'ping_timeout': T,
           'async_handlers': rng.choice(p['async_handlers'])}
    if rng.random() < p['p_no_monitor']:
        cfg['monitor_clients'] = False
    for k, v in p.get('config', {}).items():
        cfg[k] = v
    n = rng.randint(1, p['max_sessions'])
    sessions = []
    app = []
    connect = {}
    faults = []
    handler_faults = []
    t_last = 0.0
    for c in range(n):
        s = {'open': 'websocket' if rng.random() < p['p_ws_open']
             else 'polling',
             't_open': ticks(rng, 0.0, 1.0)}
        if rng.random() < p.get('p_late_open', 0.0):
            # churn: this client arrives when others have come and gone
            s['t_open'] = ticks(rng, 1.0, span + I + 3 * T)
        if rng.random() < p['p_jsonp'] and s['open'] == 'polling':
            s['jsonp'] = rng.choice([0, 1, 7, 233])
        s['poll'] = {'mode': 'auto', 'gap': rng.choice([1, 1, 2, 8, 64])}
        if rng.random() < p['p_overlap_polls']:
            s['poll']['extra'] = sorted(ticks(rng, 0.0, span)
                                        for _ in range(rng.randint(1, 3)))
        if rng.random() < p['p_stop_polling']:
            s['poll']['stop_at'] = ticks(rng, 0.2, span)
        if rng.random() < p['p_reject']:
            connect[str(c)] = rng.choice(p['reject_kinds'])
        # upgrade
        t_up = None
        if s['open'] == 'polling' and rng.random() < p['p_upgrade']:
            t_up = ticks(rng, 0.05, span * 0.6)
            u = {'t': t_up}
            if rng.random() < p['p_sabotage']:
                pool = SABOTAGE + (SABOTAGE_UNDECODABLE
                                   if p.get('undecodable_frames') else []) \
                    + (SABOTAGE_STALL * 3 if p.get('stalled_handshakes')
                       else [])
                u['steps'] = rng.choice(pool)
            s['upgrades'] = [u]
            if rng.random() < p['p_second_upgrade']:
                if rng.random() < 0.4:
                    # hard on the heels of the first one (the server may
                    # still be finishing it)
                    s['upgrades'].append({'t': ticks(rng, t_up + 0.004,
                                                     t_up + 0.06)})
                else:
                    s['upgrades'].append({'t': ticks(rng, t_up + 0.1,
                                                     span * 0.9)})
        # pong behaviour
        if rng.random() < p['p_pong_misbehave']:
            k = rng.randint(0, 2)
            s['pong'] = {'default': {'mode': 'prompt',
                                     'delay': rng.choice([1, 2, 16])},
                         'rules': {str(k): {'mode': 'never'},
                                   str(k + 1): {'mode': 'never'},
                                   str(k + 2): {'mode': 'never'}}}
        else:
            s['pong'] = {'default': {'mode': 'prompt',
                                     'delay': rng.choice([1, 1, 4, 32])}}
        # client -> server messages
        msgs = []
        for _ in range(rng.randint(*p['client_msgs'])):
            t = _near(rng, span, t_up)
            msgs.append({'t': t, 'data': [cpay.next() for _ in range(
                rng.choice([1, 1, 1, 2, 4]))]})
        s['msgs'] = sorted(msgs, key=lambda m: m['t'])
        if rng.random() < p['p_raw_bodies']:
            posts, frames = [], []
            for _ in range(rng.randint(1, 4)):
                t = _near(rng, span, t_up)
                if s['open'] == 'websocket' or (t_up is not None and
                                                rng.random() < 0.5):
                    for fr in raw_frames(rng, cpay, p):
                        frames.append({'t': t, 'data': fr})
                else:
                    posts.append({'t': t, 'body': raw_body(rng, cpay, p)})
            s['posts'] = sorted(posts, key=lambda x: x['t'])
            s['frames'] = sorted(frames, key=lambda x: x['t'])
        # end of the session
        t_end = None
        if rng.random() < p['p_end']:
            t_end = _near(rng, span, t_up, lo=0.2)
            s['end'] = {'t': t_end, 'how': rng.choice(p['end_kinds'])}
        sessions.append(s)
        # application sends
        for _ in range(rng.randint(*p['sends'])):
            t = s['t_open'] + _near(rng, span, t_up)
            app.append({'t': t, 'op': 'send', 'c': c, 'data': pay.next()})
        if rng.random() < p.get('p_burst', 0.0):
            t = s['t_open'] + _near(rng, span, t_up)
            app.append({'t': t, 'op': 'send_burst', 'c': c,
                        'data': [pay.next() for _ in range(
                            rng.choice([3, 15, 16, 17, 18, 20, 33, 40]))]})
        # app-initiated disconnect
        if rng.random() < p['p_app_disconnect']:
            polling_only = s['open'] == 'polling' and t_up is None
            if not polling_only or \
                    rng.random() < p['allow_polling_app_disconnect']:
                if t_end is not None and rng.random() < p['p_ties']:
                    t = s['t_open'] + t_end + rng.choice([-1, 0, 0, 1]) * TICK
                else:
                    t = s['t_open'] + _near(rng, span, t_up, lo=0.2)
                app.append({'t': max(0.0, t), 'op': 'disconnect', 'c': c})
        if rng.random() < p['p_ws_fault']:
            faults.append({'t': s['t_open'] + _near(rng, span, t_up, lo=0.1),
                           'kind': rng.choice(['ws_drop', 'ws_blackhole']),
                           'c': c})
        if rng.random() < p['p_handler_fault']:
            act = rng.choice(p['handler_actions'])
            handler_faults.append({
                'event': rng.choice(['message', 'message', 'disconnect']),
                'c': c, 'action': act,
                's': rng.choice([0.25, 0.5, 1.0]), 'data': 'reentrant-%d' % c,
                'exc': rng.choice(['RuntimeError', 'RuntimeError',
                                   'TypeError', 'TypeError', 'KeyError',
                                   'OSError'])})
        t_last = max(t_last, s['t_open'] + span)
    if rng.random() < p['p_disconnect_all']:
        app.append({'t': ticks(rng, 0.5, span), 'op': 'disconnect_all'})
    app.sort(key=lambda o: o['t'])
    horizon = t_last + I + 3 * T + 2.0
    plan = {'server': server, 'config': cfg, 'sessions': sessions,
            'app': app, 'faults': faults, 'horizon': horizon,
            'app_opts': {'connect': connect,
                         'handler_faults': handler_faults,
                         'coroutine_handlers': rng.random() < 0.7,
                         # (asyncio server: how often, in eighths, a
                         # WebSocket write finds the buffer full and the
                         # gateway suspends the writing task)
                         'slow_ws_write': rng.choice([0, 0, 0, 0, 1, 2, 4])
                         if server == 'asyncio' else 0,
                         'legacy_disconnect': rng.random() < 0.12,
                         # (asyncio server: the framework cancels the task
                         # serving a WebSocket whose connection is lost)
                         'cancel_on_ws_loss': server == 'asyncio' and
                         rng.random() < 0.3},
            'rng_seed': rng.randint(0, 2 ** 31)}
    return plan


def _near(rng, span, t_up, lo=0.0):
    """A session-relative time, biased towards the upgrade window."""
    if t_up is not None and rng.random() < 0.5:
        t = t_up + rng.randint(-6, 24) * TICK
        return max(lo, t)
    return ticks(rng, lo, span)


def raw_packets(rng, cpay, p, n=None):
    """A list of wire-form packets (text channel) mixing every type digit."""
    lim = p.get('packet_limit', 16)
    n = n or rng.choice([1, 1, 2, 3, 5, 8, lim - 1, lim, lim + 1, lim + 2])
    n = max(1, n)
    out = []
    for _ in range(n):
        r = rng.random()
        if r < 0.55:
            spec = cpay.next()
            if spec['k'] == 's':
                out.append(('t', '4' + spec['v']))
            elif spec['k'] == 'j':
                import json as _j
                out.append(('t', '4' + _j.dumps(spec['v'],
                                                separators=(',', ':'))))
            else:
                out.append(('b', spec['v']))
        elif r < 0.65:
            out.append(('t', rng.choice(['3', '3probe', '6', '5'])))
        elif r < 0.75:
            out.append(('t', '1'))
        elif r < 0.75 + p['raw_bad']:
            out.append(('t', rng.choice(['0', '2', '2probe', '7', '8x', '9',
                                         '0{"sid":"x"}'])))
        else:
            cpay.n += 1
            n_ = cpay.n
            out.append(('t', rng.choice([
                'x', 'b!', '4', '4%d' % (1000 + n_), '4null',
                '4"s%d"' % n_, '4[1,%d]' % n_, '4 %d' % n_,
                '4%d.5' % n_, '4{"k":%d}' % n_])))
    return out


def raw_body(rng, cpay, p):
    import base64 as _b
    parts = []
    for kind, v in raw_packets(rng, cpay, p):
        if kind == 'b':
            parts.append('b' + _b.b64encode(bytes.fromhex(v)).decode())
        else:
            parts.append(v)
    body = '\x1e'.join(parts)
    if rng.random() < p.get('p_form_body', 0.12):
        # the form-encoded variant of a body (JSONP clients): blanks as '+'
        import urllib.parse as _u
        body = 'd=' + _u.quote_plus(body)
    return body


def raw_frames(rng, cpay, p):
    out = []
    for kind, v in raw_packets(rng, cpay, p, rng.choice([1, 2, 3])):
        if kind == 'b':
            out.append({'hex': v})
        else:
            out.append(v)
    return out


# ---------------------------------------------------------------------------
# raw requests for the admission / completion properties (C12, C15)
# ---------------------------------------------------------------------------

UPGRADE_HDRS = [
    [],
    [['Upgrade', 'websocket'], ['Connection', 'Upgrade']],
    [['Upgrade', 'websocket']],
    [['Connection', 'keep-alive, Upgrade'], ['Upgrade', 'WebSocket']],
    [['Upgrade', 'h2c'], ['Connection', 'Upgrade, HTTP2-Settings']],
]
RAW_BODIES = ['', '4raw', '6', '3', '1', 'garbage', '4a\x1e4b', '\x1e',
              'b!!', '9', '4' + 'x' * 300, 'd=4form', '4😀',
              # bodies whose decoding fails with something other than
              # ValueError: a form body with an empty field (KeyError), JSON
              # nested deeper than the interpreter recurses (RecursionError)
              'd=', 'd=&x=1', 'x=1', '4' + '[' * 3000 + ']' * 3000]


def raw_request(rng, t, malformed=False):
    """One request drawn from the admission cross product."""
    method = rng.choice(['GET', 'GET', 'GET', 'POST', 'POST', 'OPTIONS',
                         'PUT', 'DELETE'])
    parts = ['c={c}']
    tr = rng.choice([None, 'polling', 'polling', 'websocket', 'bogus'])
    if tr:
        parts.append('transport=' + tr)
    eio = rng.choice([None, '3', '4', '4', '4'])
    if eio:
        parts.append('EIO=' + eio)
    sidk = rng.choice(['absent', 'own', 'own', 'own', 'unknown', 'other'])
    if sidk == 'own':
        parts.append('sid={sid}')
    elif sidk == 'unknown':
        parts.append('sid=AAAAAAAAAAAAAAAAAAAA')
    elif sidk == 'other':
        parts.append('sid={other}')
    j = rng.choice([None, None, None, '3', 'abc', '-1'])
    if j is not None:
        parts.append('j=' + j)
    rng.shuffle(parts)
    hdrs = rng.choice(UPGRADE_HDRS + [[], [], []])
    r = {'t': t, 'method': method, 'query': '&'.join(parts),
         'headers': [list(h) for h in hdrs], 'sidk': sidk}
    names = {h[0].lower(): h[1].lower() for h in hdrs}
    if method == 'GET' and names.get('upgrade') == 'websocket' and \
            'upgrade' in names.get('connection', ''):
        r['ws'] = True
        r['hold'] = rng.choice([2, 8, 64])
    if method in ('POST', 'PUT'):
        body = rng.choice(RAW_BODIES)
        r['body'] = body
        if malformed and rng.random() < 0.3:
            r['declared'] = rng.choice([0, 1, len(body) + 5, 10 ** 9])
    return r


def add_raw_requests(rng, plan, per_session=(1, 5), span=6.0,
                     malformed=False):
    for s in plan['sessions']:
        n = rng.randint(*per_session)
        raws = list(s.get('raw', []))
        for _ in range(n):
            t_up = None
            ups = s.get('upgrades') or []
            if ups:
                t_up = ups[0]['t']
            t = _near(rng, span, t_up)
            e = s.get('end')
            if e and rng.random() < 0.4:
                # right after the session ended: closed-but-not-reaped
                t = e['t'] + rng.choice([1, 2, 3, 8, 64]) * TICK
            raws.append(raw_request(rng, t, malformed))
        s['raw'] = sorted(raws, key=lambda r: r['t'])
    return plan


def race_cluster(rng, plan):
    """Make two to four actors work on one session in the same instant
    (requests reach the server in the instant they are issued)."""
    ss = plan.get('sessions') or []
    if not ss:
        return plan
    plan['fixed_latency'] = 0
    app = plan.setdefault('app', [])
    for _ in range(rng.choice([1, 1, 2])):
        c = rng.randrange(len(ss))
        s = ss[c]
        r = ticks(rng, 0.05, 3.0)
        T = plan.get('config', {}).get('ping_timeout')
        if isinstance(T, (int, float)) and len(ss) in (1, 2, 4) and \
                rng.random() < 0.35:
            # in step with the service task: it starts with the first
            # session and sweeps one session every ping_timeout / n
            t_s = min(x.get('t_open', 0.0) for x in ss)
            k = rng.randint(1, 6 * len(ss))
            r = max(TICK, t_s + k * T / len(ss) - s.get('t_open', 0.0) -
                    TICK)
        # the OPEN answer takes one tick: client times count from there
        t_abs = s.get('t_open', 0.0) + TICK + r
        ws = s.get('open') == 'websocket'
        menu = ['end', 'end', 'bad', 'msg', 'poll', 'app_disc', 'app_disc',
                'app_send', 'app_all', 'open2', 'noop']
        for what in rng.sample(menu, rng.choice([2, 2, 3, 4])):
            if what == 'end':
                s['end'] = {'t': r, 'how': rng.choice(
                    ['close_packet', 'close_packet', 'ws_close', 'drop']
                    if ws else ['close_packet'])}
            elif what in ('bad', 'noop'):
                d = '7' if what == 'bad' else rng.choice(['6', '3'])
                if ws:
                    s.setdefault('frames', []).append({'t': r, 'data': d})
                    s['frames'].sort(key=lambda x: x['t'])
                else:
                    s.setdefault('posts', []).append({'t': r, 'body': d})
                    s['posts'].sort(key=lambda x: x['t'])
            elif what == 'poll' and not ws:
                s.setdefault('poll', {}).setdefault('extra', []).append(r)
            elif what == 'app_disc':
                app.append({'t': t_abs, 'op': 'disconnect', 'c': c})
            elif what == 'app_send':
                app.append({'t': t_abs, 'op': 'send', 'c': c,
                            'data': {'k': 's', 'v': 'race-%d' % len(app)}})
            elif what == 'app_all':
                app.append({'t': t_abs, 'op': 'disconnect_all'})
            elif what == 'open2' and len(ss) > 1:
                o = ss[(c + 1) % len(ss)]
                o['t_open'] = t_abs
    app.sort(key=lambda o: o['t'])
    return plan


def few_sessions(rng, plan):
    """Keep one or two sessions (races around the first and the last session
    of the table need a small table)."""
    ss = plan.get('sessions') or []
    n = rng.choice([1, 1, 2])
    if len(ss) <= n:
        return plan
    del ss[n:]
    for key in ('app', 'faults'):
        plan[key] = [o for o in plan.get(key, [])
                     if not isinstance(o.get('c'), int) or o['c'] < n]
    hf = plan.get('app_opts', {}).get('handler_faults')
    if hf:
        plan['app_opts']['handler_faults'] = [
            x for x in hf if not isinstance(x.get('c'), int) or x['c'] < n]
    conn = plan.get('app_opts', {}).get('connect')
    if isinstance(conn, dict):
        plan['app_opts']['connect'] = {
            k: v for k, v in conn.items() if int(k) < n}
    return plan


def client_race_cluster(rng, plan):
    """Client plans: application calls in the very instant something the
    scripted server does reaches the client (its timeline counts from the
    connect, which takes no time in this world)."""
    ops = plan['client']['ops']
    tl = plan.get('sserver', {}).get('timeline', [])
    conns = [o for o in ops if o['op'] == 'connect']
    if not conns:
        return plan
    for _ in range(rng.choice([1, 2])):
        c0 = rng.choice(conns)
        if tl and rng.random() < 0.7:
            rel = rng.choice(tl)['t']
        else:
            rel = ticks(rng, 0.05, 3.0)
            tl.append({'t': rel, 'pkts': [[4, {'k': 's',
                                               'v': 'race-s%d' % len(tl)}]]})
        for what in rng.sample(['send', 'disconnect', 'send', 'wait'],
                               rng.choice([1, 2, 3])):
            op = {'t': c0['t'] + rel, 'op': what}
            if what == 'send':
                op['data'] = {'k': 's', 'v': 'race-c%d' % len(ops)}
            if what == 'disconnect':
                op['abort'] = rng.random() < 0.2
            ops.append(op)
    tl.sort(key=lambda x: x['t'])
    ops.sort(key=lambda o: o['t'])
    return plan


def with_lines(gen, hot=None, p=0.25, cluster=0.5, few=0.3, stall=0.35,
               stalls=(2, 8, 8, 32)):
    """Wrap a plan generator: a share ``p`` of the plans that involve threaded
    code of the package run at line granularity."""
    def g(rng, tier, i):
        plan = gen(rng, tier, i)
        cl = plan.get('client') if isinstance(plan.get('client'), dict) \
            else None
        srv = plan.get('server', 'threaded' if cl is None else None)
        pool = []
        if srv == 'threaded':
            pool += LINE_SERVER
        if cl is not None and cl.get('kind', 'threaded') == 'threaded':
            pool += LINE_CLIENT
        if not pool and cl is None and srv == 'asyncio' and cluster and \
                rng.random() < p * cluster:
            # asyncio server: no pre-emption to add, but the coincidences
            # are worth having (tasks interleave at their awaits)
            if rng.random() < few:
                few_sessions(rng, plan)
            race_cluster(rng, plan)
            return plan
        if not pool and cl is not None and 'sserver' in plan and cluster \
                and rng.random() < p * cluster:
            # asyncio client: coincidences without pre-emption
            client_race_cluster(rng, plan)
            return plan
        if pool and rng.random() < p:
            line_decorate(rng, plan, [x for x in (hot or []) if x in pool],
                          sorted(set(pool)),
                          stall=stall, stalls=stalls if cl is None else
                          tuple(x for x in stalls if x <= 32))
            if plan['line'].get('stall'):
                if cl is None and rng.random() < few:
                    few_sessions(rng, plan)
                return plan
            if cl is None and rng.random() < few:
                few_sessions(rng, plan)
            if cl is None and rng.random() < cluster:
                race_cluster(rng, plan)
            if cl is not None and 'sserver' in plan and \
                    rng.random() < cluster:
                client_race_cluster(rng, plan)
        return plan
    g.lines = True
    return g

"""Shared metadata of the server-scenario based property checks."""
WORLDS = ['ThreadedServerWorld(WSGIApp+Server)',
          'AsyncServerWorld(ASGIApp+AsyncServer)']
COMPONENTS = {
    'real': ['engineio.Server', 'engineio.AsyncServer', 'engineio.socket',
             'engineio.async_socket', 'engineio.base_server',
             'engineio.WSGIApp', 'engineio.ASGIApp', 'async_drivers.asgi',
             'async_drivers._websocket_wsgi', 'async_drivers.threading '
             '(dict entries replaced)', 'packet', 'payload', 'json'],
    'stub': ['threads/queue/event/sleep (SimThread/SimQueue/SimEvent)',
             'asyncio selector+clock (SimLoop)', 'simple_websocket.Server',
             'WSGI/ASGI gateway actors', 'scripted Engine.IO v4 client',
             'secrets (seeded)', 'time (virtual clock)']}
ASSUMPTIONS = [
    'sim primitives copy queue.Queue / threading.Event semantics',
    'pre-emption at yield points in every run; in about a quarter of the '
    'runs that involve threaded code also between source lines of engineio '
    'functions (sys.settrace; realisable under OS threads), a third of those '
    'as stall runs (the pre-empted thread stays away for up to 32 ticks of '
    'virtual time; oracles widened by the total injected); asyncio ready '
    'queue kept FIFO',
    'ASGI server raises from websocket.send once the peer has gone (uvicorn '
    '>= 0.28; older versions dropped such sends silently)',
    'results hold for async_mode threading and asgi only']
LEVEL_NOTE = ('Trusted: sim primitives (queue/event/thread/asyncio clock), '
              'fake simple_websocket and gateways, scripted client, the '
              'reference models of the oracle. Pre-emption at yield points, '
              'plus between source lines in a share of the threaded runs. async_mode threading and asgi only.')
TECHNIQUE = ('deterministic simulation with fault injection: seeded '
             'schedule/fault search + history oracle')

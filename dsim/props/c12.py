"""C12  Request admission: only well-addressed version-4 requests are let
in."""
from .. import gen as _gen
from .. import oracles
from ..scenario import run_server_scenario
from ._common import *  # noqa

ID = 'C12'
SIZES = {'quick': 4000, 'thorough': 120000}
RULE = ('seeded plans: live histories (polling, upgraded, mid-upgrade, '
        'closed-not-reaped, rejected sessions) with raw requests drawn from '
        'method x EIO x transport x sid kind x Upgrade/Connection headers x '
        'JSONP index x configured transports, issued at drawn points; '
        'reference admission function decides the status set; refusals are '
        'checked for no effect (no connect handler, table/transport/liveness/'
        'queue unchanged between arrival and completion). Non-trivial: at '
        'least one raw request reached the server.')
REQUIRED_PROBES = {'quick': ['refused', 'admitted', 'closed_sid'],
                   'thorough': ['refused', 'admitted', 'closed_sid',
                                'mid_upgrade']}
PROFILE = _gen.profile(p_upgrade=0.5, p_sabotage=0.3, sends=(0, 4),
                       client_msgs=(0, 2), p_end=0.5,
                       end_kinds=['close_packet', 'close_packet', 'vanish',
                                  'ws_close'],
                       p_app_disconnect=0.05, p_disconnect_all=0.0,
                       p_handler_fault=0.0, p_reject=0.15, p_ws_fault=0.0,
                       p_pong_misbehave=0.0)


def gen(rng, tier, i):
    plan = _gen.gen_server_plan(rng, PROFILE)
    r = rng.random()
    if r < 0.12:
        plan['config']['transports'] = ['polling']
    elif r < 0.2:
        plan['config']['transports'] = ['websocket']
        for s in plan['sessions']:
            s['open'] = 'websocket'
    _gen.add_raw_requests(rng, plan, (1, 6), PROFILE['span'])
    return plan


gen = _gen.with_lines(gen, ['handle_request', '_get_socket', 'close', '_handle_connect', 'disconnect', 'handle_get_request'])

def run(plan, sched_values=None, sched_seed=0):
    h = run_server_scenario(plan, sched_values, sched_seed)
    f = oracles.Facts(h)
    v = oracles.check_admission(h, f)
    # "consumes no queued packet": black-box, through delivery completeness
    v += [x for x in oracles.check_delivery(h, f)
          if x['clause'] in ('complete', 'at-most-once', 'no-crosstalk')]
    pr = {}
    n = 0
    for c in h.clients:
        for req in c.raws:
            if req.seq_arrive is None:
                continue
            n += 1
            if req.status in (400, 405):
                pr['refused'] = pr.get('refused', 0) + 1
            elif req.status in (200, 401):
                pr['admitted'] = pr.get('admitted', 0) + 1
            shape = oracles._st(req)
            if 'closed' in shape:
                pr['closed_sid'] = pr.get('closed_sid', 0) + 1
            if 'upgrading' in shape:
                pr['mid_upgrade'] = pr.get('mid_upgrade', 0) + 1
    return oracles.outcome(h, v, pr, n > 0)


LEVEL_TEXT = ('Seeded sampling of the admission cross product, each request '
              'issued as traffic at a drawn point of a live simulated '
              'history on both servers and judged by a reference admission '
              'function on the server-side session state at arrival; '
              'refusals are checked black-box for having no effect. Input '
              'generation inside simulated conversations; sampling, not '
              'proof.')

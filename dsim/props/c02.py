"""C02  Payload framing is separator-exact, order-preserving and bounded."""
import itertools
import urllib.parse

from .. import gen as _gen
from .. import oracles
from .. import refmodel as R
from ..oracles import V
from ..scenario import run_server_scenario
from . import c01 as _c01
from ._common import *  # noqa

ID = 'C02'
ALPHABET = ['0', '1', '4', '6', '9', 'b', '\x1e', '"', '[', ']', '{', ':',
            'A', '=', '!', 'é', '٤', 'd', ' ', '-']
CORE = ['4', '1', '9', 'b', '\x1e', '"', '[', 'A', '=', 'd', '٤', '0']
SHORT = [''.join(p) for n in range(0, 4)
         for p in itertools.product(ALPHABET, repeat=n)]          # 8421
LEN4 = [''.join(p) for p in itertools.product(CORE, repeat=4)]   # 20736
BATCH = 48
N_EXH = (len(SHORT) + len(LEN4) + BATCH - 1) // BATCH            # 608 runs
SIZES = {'quick': 800, 'thorough': N_EXH + 8000}
EXHAUSTIVE = {'quick': False, 'thorough': True}
EXHAUSTIVE_SUBSPACE = {
    'quick': None,
    'thorough': 'every string of length <= 3 over the 20-character '
                'adversarial alphabet (8421) and every string of length 4 '
                'over a 12-character core (20736), each POSTed to its own '
                'live session (runs 0..%d); longer strings at random '
                'afterwards' % (N_EXH - 1)}
RULE = ('each run: 8-48 polling sessions on a server whose per-payload packet '
        'limit is drawn from {1,2,16,17,50}; a hostile scripted peer POSTs '
        'one adversarial body to each (type digits, b, separators, quotes, '
        'brackets, base64 and non-base64 characters, non-ASCII digits, d= '
        'forms, deep JSON, huge digit strings, megabyte separator runs, '
        'packet counts around the limit); a reference decoder decides which '
        'message events must / must not fire and the request must complete; '
        'plus 30 directly generated packet lists (0..20 packets, text / '
        'JSON / binary) checked for exact framing and round trip incl. the '
        'd= form. Non-trivial: a body over the packet limit or an '
        'undecodable body reached a live session.')
REQUIRED_PROBES = {'quick': ['over_limit_body', 'undecodable_body',
                             'accepted_body', 'd_form'],
                   'thorough': ['over_limit_body', 'undecodable_body',
                                'accepted_body', 'd_form']}
MONSTERS = ['4' + '[' * 100000, '4' + '9' * 1000000, '\x1e' * 1000000,
            '4' + '{"a":' * 50000, 'b' + 'A' * 1000001,
            '4"' + 'x' * 500000, '4' + '1' * 4301, '4-' + '0' * 5000]


def random_body(rng, n_uniq):
    r = rng.random()
    if r < 0.35:
        k = rng.randint(1, 12)
        return ''.join(rng.choice(ALPHABET) for _ in range(k))
    if r < 0.7:
        k = rng.choice([0, 1, 2, 3, 15, 16, 17, 18, 49, 50, 51, 52])
        parts = []
        for j in range(k):
            q = rng.random()
            if q < 0.7:
                parts.append('4u%d.%d' % (n_uniq, j))
            elif q < 0.8:
                parts.append('bAAEC')
            elif q < 0.9:
                parts.append(rng.choice(['3', '6', '4{"a":%d}' % j]))
            else:
                parts.append(rng.choice(['x', '', 'b!', '٤', '4\x00']))
        body = '\x1e'.join(parts)
        if rng.random() < 0.25:
            body = 'd=' + urllib.parse.quote(body)
        return body
    if r < 0.8:
        return 'd=' + rng.choice(['4x', '', '4a%1E4b', '%', '4%zz', '4+b',
                                  '4a&d=4b', '4a;x=1'])
    if r < 0.9:
        return rng.choice(MONSTERS)
    return ''.join(rng.choice(['4m%d' % n_uniq, '\x1e', '\x1e\x1e', '1', '9',
                               'b', 'bQQ==', '"', '4[1', '٤x'])
                   for _ in range(rng.randint(1, 6)))


def gen(rng, tier, i):
    bodies = None
    if tier == 'thorough' and i < N_EXH:
        allb = SHORT + LEN4
        bodies = allb[i * BATCH:(i + 1) * BATCH]
    else:
        bodies = [random_body(rng, j) for j in range(rng.randint(8, 24))]
    plimit = rng.choice([1, 2, 16, 16, 17, 50])
    server = rng.choice(['threaded', 'asyncio'])
    sessions = []
    for j, b in enumerate(bodies):
        sessions.append({
            'open': 'polling', 't_open': 0.01 * j,
            'poll': {'mode': 'auto', 'gap': 4},
            'pong': {'default': {'mode': 'prompt', 'delay': 1}},
            'posts': [{'t': 0.25 + 0.002 * (j % 7), 'body': b}]})
    lists = []
    for _ in range(30):
        n = rng.choice([0, 1, 2, 3, 5, 16, 17, 20])
        lists.append([{'ptype': rng.choice([4, 4, 4, 4, 2, 3, 6, 1, 0, 5]),
                       'val': _c01.gen_value(rng)} for _ in range(n)])
    return {'server': server,
            'config': {'ping_interval': 4.0, 'ping_timeout': 2.0,
                       'async_handlers': rng.random() < 0.5},
            'sessions': sessions, 'app': [], 'faults': [], 'horizon': 3.0,
            'app_opts': {'max_decode_packets': plimit, 'connect': {},
                         'handler_faults': []},
            'step_cap': 400000, 'rng_seed': rng.randrange(1 << 30),
            'direct_lists': lists}


def check_direct(lists, limit):
    from engineio import packet as P
    from engineio import payload as PL
    out = []
    pr = {}
    old = PL.Payload.max_decode_packets
    PL.Payload.max_decode_packets = limit
    try:
        for spec in lists:
            pkts, ref = [], []
            ok = True
            for it in spec:
                v = R.spec_to_value(it['val'])
                t = it['ptype']
                if isinstance(v, (bytes, bytearray)):
                    t = 4
                pkts.append(P.Packet(t, data=v))
                ref.append((t, v))
            if not ok:
                continue
            exp = R.ref_payload_encode(ref)
            try:
                got = PL.Payload(packets=pkts).encode()
            except Exception as e:  # noqa
                out.append(V('framing', 'payload|encode-raised|%s' %
                             type(e).__name__, 'Payload.encode raised %r' %
                             (e,)))
                continue
            if got != exp:
                out.append(V('framing', 'payload|encode-mismatch',
                             'Payload.encode of %d packets gave %r, '
                             'reference %r' % (len(ref), got[:80],
                                               exp[:80])))
                continue
            has_sep = any(isinstance(v, str) and '\x1e' in v
                          for _t, v in ref) or any(
                isinstance(v, (dict, list)) and '\x1e' in R.ref_encode(
                    t, v, True) for t, v in ref)
            for form in ('plain', 'd='):
                body = exp if form == 'plain' else \
                    'd=' + urllib.parse.quote(exp)
                if form == 'd=' and (exp.startswith('d=') or exp == ''):
                    continue    # (an empty list has no d= form)
                if form == 'plain' and exp.startswith('d='):
                    continue
                if form == 'd=':
                    pr['d_form'] = pr.get('d_form', 0) + 1
                n_parts = len(exp.split('\x1e')) if exp else 0
                try:
                    dec = PL.Payload(encoded_payload=body).packets
                except Exception as e:  # noqa
                    try:
                        R.ref_payload_decode(exp, limit)
                        refused = False
                    except R.RefError:
                        refused = True
                    if not refused:
                        out.append(V('round-trip',
                                     'payload|decode-raised|%s|%s' % (
                                         form, type(e).__name__),
                                     'decode of a valid %d-packet payload '
                                     '(%s form, limit %d) raised %r' % (
                                         n_parts, form, limit, e)))
                    continue
                if n_parts > limit:
                    out.append(V('bounded', 'payload|over-limit-decoded|%s'
                                 % form, 'a payload of %d packets was '
                                 'decoded with limit %d' % (n_parts,
                                                            limit)))
                    continue
                if len(dec) != n_parts:
                    out.append(V('separator-exact',
                                 'payload|wrong-packet-count|%s' % form,
                                 '%d separators+1 but %d packets decoded '
                                 '(%s form)' % (n_parts, len(dec), form)))
                    continue
                if has_sep:
                    continue
                for (t, v), d, part in zip(ref, dec, exp.split('\x1e')):
                    try:
                        wt, wv, cert = R.ref_decode(part)
                    except R.RefError:
                        continue
                    if cert != 'exact':
                        continue
                    if d.packet_type != wt or not R.same_value(d.data, wv):
                        out.append(V('round-trip',
                                     'payload|packet-changed|%s' % form,
                                     'packet %r came back as type %r data '
                                     '%r (reference type %r data %r)' % (
                                         part[:40], d.packet_type,
                                         oracles._short(d.data), wt,
                                         oracles._short(wv))))
                        break
    finally:
        PL.Payload.max_decode_packets = old
    return out, pr


def run(plan, sched_values=None, sched_seed=0):
    h = run_server_scenario(plan, sched_values, sched_seed)
    f = oracles.Facts(h)
    limit = plan['app_opts']['max_decode_packets']
    v, pr = check_direct(plan.get('direct_lists', []), limit)
    v += [x for x in oracles.check_dispatch(h, f)
          if x['clause'] in ('dispatch-exactly-once', 'dispatch-spurious',
                             'dispatch-order')]
    v += [x for x in oracles.check_completion(h, f)
          if x['clause'] in ('no-exception-escapes', 'well-formed-response',
                             'status-set', 'bounded-completion')]
    for c in h.clients:
        for req in c.posts:
            if req.tag != 'rawpost' or req.seq_arrive is None:
                continue
            try:
                text = req.body.decode('utf-8')
                R.ref_payload_decode(text, limit)
                pr['accepted_body'] = pr.get('accepted_body', 0) + 1
            except R.RefError as e:
                if 'too many' in str(e):
                    pr['over_limit_body'] = pr.get('over_limit_body', 0) + 1
                else:
                    pr['undecodable_body'] = pr.get('undecodable_body',
                                                    0) + 1
            except UnicodeDecodeError:
                pass
    nt = bool(pr.get('over_limit_body') or pr.get('undecodable_body'))
    o = oracles.outcome(h, v, pr, nt)
    o['states'] = []
    return o


LEVEL_TEXT = ('Hostile-peer traffic: adversarial bodies are POSTed to live '
              'simulated sessions on both servers and judged by a reference '
              'decoder (zero events for refused bodies, exact events '
              'otherwise, request completes, nothing hangs or escapes); the '
              'framing / round-trip / d= clauses are seeded input generation '
              'against the reference in the same runs. Thorough walks every '
              'string of length <= 3 over the adversarial alphabet and '
              'length 4 over its core through real POSTs (exhaustive for '
              'that sub-space); everything else is sampled.')

"""C10  This package's clients and servers interoperate without loss or
disagreement."""
from .. import interop
from ._ccommon import ASSUMPTIONS, TECHNIQUE, GRANULARITY  # noqa

ID = 'C10'
SIZES = {'quick': 3000, 'thorough': 100000}
RULE = ('seeded plans: 2x2 implementation pairs (Client / AsyncClient x '
        'Server / AsyncServer) in one kernel over the simulated network; '
        'client transports None / [polling] / [websocket] / [polling, '
        'websocket] x server transports; bursts of 1..40 sends in either '
        'direction with all payload kinds; idle stretches of >= 10 heartbeat '
        'cycles; disconnect by either side at drawn points; heartbeat '
        'settings incl. fractional intervals and grace; fault-free runs '
        'assert every clause, runs with link faults (refused / lost '
        'requests and responses) assert the safety clauses only. '
        'Non-trivial: a connection was established and a message or a '
        'disconnect crossed it.')
REQUIRED_PROBES = {'quick': ['connected', 'msg_c2s', 'msg_s2c', 'idle_run',
                             'burst_gt_16', 'upgraded'],
                   'thorough': ['connected', 'msg_c2s', 'msg_s2c',
                                'idle_run', 'burst_gt_16', 'upgraded',
                                'link_fault']}
WORLDS = ['ThreadedClientWorld|AsyncClientWorld x ThreadedServerWorld|'
          'AsyncServerWorld (one kernel, one clock, one network)']
COMPONENTS = {
    'real': ['engineio.Client', 'engineio.AsyncClient', 'engineio.Server',
             'engineio.AsyncServer', 'sockets', 'WSGIApp', 'ASGIApp',
             'async_drivers.asgi', 'async_drivers._websocket_wsgi',
             'packet', 'payload'],
    'stub': ['requests / websocket-client / aiohttp.ClientSession fakes',
             'simple_websocket.Server fake', 'WSGI / ASGI gateway actors',
             'threads / queues / events / clocks / asyncio selector']}
LEVEL_NOTE = ('Trusted: everything trusted by the server-side and the '
              'client-side checks together. Disconnect reasons are not '
              'compared across the two sides (the statement does not '
              'constrain them).')


def gen(rng, tier, i):
    return interop.gen_interop_plan(rng)


from .. import gen as _gen  # noqa
gen = _gen.with_lines(gen, ['_write_loop', 'send', 'poll', 'writer', 'close', 'disconnect', '_websocket_handler', '_connect_websocket'])

_gen_general = gen


def gen_heartbeat_thread_stalled(rng, tier, i):
    """Threaded server, an idle connection of many heartbeat cycles, and a
    ping thread that loses the CPU for a whole PING/PONG round trip inside
    _send_ping (stall run): the connection must stay up all the same."""
    for _ in range(50):
        plan = interop.gen_interop_plan(rng, {'p_idle': 1.0, 'p_fault': 0.0,
                                              'p_end': 0.3})
        if plan['server'] == 'threaded':
            break
    plan['server'] = 'threaded'
    plan['link_faults'] = []
    plan['fixed_latency'] = rng.choice([None, 1, 1])
    plan['line'] = {'mean': rng.choice([1, 2, 4]), 'max': 4,
                    'focus': ['_send_ping'], 'stall': rng.choice([8, 32])}
    return plan


def gen(rng, tier, i):
    if rng.random() < 0.06:
        return gen_heartbeat_thread_stalled(rng, tier, i)
    return _gen_general(rng, tier, i)


gen.lines = True


def run(plan, sched_values=None, sched_seed=0):
    h = interop.run_interop_scenario(plan, sched_values, sched_seed)
    v = interop.check_interop(h)
    pr = {}
    if any(e['ev'] == 'connect' for e in h.cw.app.events):
        pr['connected'] = 1
    if any(e['ev'] == 'message' for e in h.sapp.events):
        pr['msg_c2s'] = 1
    if any(e['ev'] == 'message' for e in h.cw.app.events):
        pr['msg_s2c'] = 1
    if plan.get('meta', {}).get('idle'):
        pr['idle_run'] = 1
    if plan.get('link_faults'):
        pr['link_fault'] = 1
    ts = sorted(o['t'] for o in plan['client']['ops'] if o['op'] == 'send')
    ts2 = sorted(o['t'] for o in plan['server_ops'] if o['op'] == 'send')
    for arr in (ts, ts2):
        for i in range(len(arr) - 16):
            if arr[i + 16] - arr[i] <= 8 / 1024:
                pr['burst_gt_16'] = 1
    if any(st and st['upgraded'] for st in h.final['table'].values()) or \
            any(e['transport'] == 'websocket' for e in h.cw.app.events):
        pr['upgraded'] = 1
    nt = bool(pr.get('connected') and (pr.get('msg_c2s') or
                                       pr.get('msg_s2c') or
                                       plan.get('meta', {}).get('t_end')))
    return {'violations': v, 'probes': pr,
            'faults': dict(h.world.faults, **h.k.line_faults()), 'sim_s': h.final['now'],
            'digest': h.digest, 'sched_digest': h.sched_digest,
            'states': ['%s/%s:%s' % (h.cw.kind, h.world.impl, e['ev'])
                       for e in h.cw.app.events][:20],
            'nontrivial': nt, 'sched': h.tape.recorded(),
            'summary': {'pair': '%s/%s' % (h.cw.kind, h.world.impl),
                        'client_events': len(h.cw.app.events),
                        'server_events': len(h.sapp.events)},
            'leaked': h.leaked, 'extra': {}}


LEVEL_TEXT = ('Seeded search over conversations between the real clients '
              'and the real servers of this package (all four pairs, all '
              'transport choices, bursts, idle stretches, disconnects by '
              'either side, heartbeat settings) under tape-drawn schedules '
              'and latencies, with and without link faults; both '
              'applications\' logs must agree: every message sent while '
              'connected arrives exactly once, in order, equal by value and '
              'type; idle connections stay up; a disconnect by either side '
              'is seen exactly once by both. Sampling, not proof.')

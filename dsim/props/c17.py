"""C17  Session ids are unique, URL-safe and unguessable."""
import base64
import re

from ..tape import Tape
from ..oracles import V
from .. import worlds as W
from ._common import *  # noqa

ID = 'C17'
SIZES = {'quick': 96, 'thorough': 320}
WINDOW = 1 << 16
RULE = ('fault injection on the random-source seam (engineio.base_server.'
        'secrets): PRNG, constant, all-ones, alternating and short-cycle '
        'output; ids are issued by real Server / AsyncServer instances from '
        'drawn counter start values (incl. 2^24 - k, across the wrap); every '
        'id is checked for length, alphabet, for carrying exactly the 12 '
        'bytes the seam handed out for that issue, and for a counter that '
        'advances by exactly 1 mod 2^24 (which makes any 2^24 consecutive '
        'ids distinct whatever the source returns); windows are also checked '
        'for distinctness directly. Thorough walks the complete 2^24 counter '
        'cycle in 256 overlapping windows. A run is non-trivial when the '
        'source was degenerate or the window crossed the wrap.')
EXHAUSTIVE = {'quick': False, 'thorough': True}
EXHAUSTIVE_SUBSPACE = {
    'quick': None,
    'thorough': 'all 2^24 counter values, as 256 windows of 2^16 + 16 ids '
                '(runs 0..255), each joined to its successor by the overlap'}
WORLDS = ['engineio.Server / engineio.AsyncServer instances (no traffic)']
ID_RE = re.compile(r'^[A-Za-z0-9_-]{20}$')
MODES = ['prng', 'const', 'ones', 'alt', 'cycle3']


def gen(rng, tier, i):
    if tier == 'thorough' and i < 256:
        return {'start': (i * WINDOW) & 0xffffff, 'count': WINDOW + 16,
                'mode': MODES[i % len(MODES)],
                'server': 'threaded' if i % 2 else 'asyncio', 'seed': i}
    start = rng.choice([0, 1, 0xffffff, 0xfffffe, 0xffffff - rng.randint(
        0, 70000), rng.randrange(1 << 24), rng.randrange(1 << 24)])
    return {'start': start, 'count': rng.choice([WINDOW, WINDOW // 2, 4096]),
            'mode': rng.choice(MODES),
            'server': rng.choice(['threaded', 'asyncio']),
            'seed': rng.randrange(1 << 30)}


def run(plan, sched_values=None, sched_seed=0):
    import engineio
    import engineio.base_server as bs
    tape = Tape(seed=sched_seed, values=sched_values)
    fake = W.FakeSecrets(plan['mode'], plan.get('seed', 0))
    saved = bs.secrets
    bs.secrets = fake
    out = []
    probes = {}
    try:
        if plan['server'] == 'threaded':
            srv = engineio.Server(async_mode='threading')
        else:
            srv = engineio.AsyncServer(async_mode='asgi')
        srv.sequence_number = plan['start']
        impl = plan['server']
        seen = set()
        prev = None
        n = plan['count']
        first = last = None
        for j in range(n):
            before = fake.count
            fake.last_n = 0
            sid = srv.generate_id()
            if first is None:
                first = sid
            last = sid
            asked = [fake.last_n] * (fake.count - before)
            handed = fake.handed[-1] if fake.handed else b''
            if not isinstance(sid, str) or not ID_RE.match(sid):
                out.append(V('id-shape', '%s|id-shape' % impl,
                             'id %r (issue %d) is not 20 chars over '
                             '[A-Za-z0-9_-]' % (sid, j)))
                break
            try:
                raw = base64.urlsafe_b64decode(sid)
            except Exception as e:
                out.append(V('id-shape', '%s|id-not-urlsafe-b64' % impl,
                             'id %r does not decode: %s' % (sid, e)))
                break
            if len(raw) != 15:
                out.append(V('id-shape', '%s|id-length' % impl,
                             'id %r decodes to %d bytes' % (sid, len(raw))))
                break
            if not asked or sum(asked) < 12:
                out.append(V('id-entropy', '%s|less-than-96-bits' % impl,
                             'issue %d asked the OS random source for %r '
                             'bytes' % (j, asked)))
                break
            if raw[:12] != handed[:12]:
                out.append(V('id-entropy', '%s|random-bytes-not-embedded' %
                             impl, 'id %r does not embed the 12 bytes '
                             'handed out by the random source (%s)' % (
                                 sid, handed[:12].hex())))
                break
            ctr = int.from_bytes(raw[12:], 'big')
            if prev is not None and ctr != (prev + 1) & 0xffffff:
                out.append(V('id-unique', '%s|counter-step' % impl,
                             'issue counter went from %d to %d' % (prev,
                                                                   ctr)))
                break
            if prev is None and ctr != plan['start'] & 0xffffff:
                out.append(V('id-unique', '%s|counter-start' % impl,
                             'first id carries counter %d, server was at %d'
                             % (ctr, plan['start'])))
                break
            prev = ctr
            if sid in seen:
                out.append(V('id-unique', '%s|duplicate-id|%s' % (
                    impl, plan['mode']),
                    'id %r issued twice within %d issues (source mode %s)'
                    % (sid, j + 1, plan['mode'])))
                break
            seen.add(sid)
        if plan['mode'] != 'prng':
            probes['degenerate_source'] = 1
        if plan['start'] + n > (1 << 24):
            probes['wrap_crossed'] = 1
    finally:
        bs.secrets = saved
    digest = '%s:%s:%s' % (first, last, len(out))
    return {'violations': out, 'probes': probes,
            'faults': {'rng_degenerate': 1 if plan['mode'] != 'prng' else 0},
            'sim_s': 0.0, 'digest': digest, 'sched_digest': digest,
            'states': [], 'nontrivial': bool(probes),
            'sched': tape.recorded(),
            'summary': {'first': first, 'last': last, 'mode': plan['mode'],
                        'start': plan['start'], 'count': n},
            'leaked': 0, 'extra': {'ids_checked': n}}


REQUIRED_PROBES = {'quick': ['degenerate_source', 'wrap_crossed'],
                   'thorough': ['degenerate_source', 'wrap_crossed']}
LEVEL_TEXT = ('Fault injection on the random-source seam plus a sequential '
              'history check of the ids real server instances issue; no '
              'schedule dimension exists for this property (the only '
              'nondeterminism is the random source, which is behind the '
              'seam). Per-id checks make the 2^24-window uniqueness claim '
              'independent of the source output; the thorough tier walks '
              'the whole counter cycle (exhaustive for that dimension), '
              'source outputs are sampled.')
LEVEL_NOTE = ('Trusted: the fake secrets module and the decoding of ids in '
              'the oracle. "Unguessable" is checked as "each id embeds >= 96 '
              'bits obtained from secrets.token_bytes in that issue"; the '
              'quality of the OS CSPRNG is assumed. Concurrent issue from '
              'several threads is outside the property\'s quantifier.')
TECHNIQUE = ('deterministic simulation: fault injection on the random-source '
             'seam + sequential history check (counter cycle exhaustive in '
             'thorough)')

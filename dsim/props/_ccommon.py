"""Shared metadata of the client-side property checks."""
WORLDS = ['ThreadedClientWorld(engineio.Client) <-> ScriptedServer',
          'AsyncClientWorld(engineio.AsyncClient) <-> ScriptedServer']
COMPONENTS = {
    'real': ['engineio.Client', 'engineio.AsyncClient',
             'engineio.base_client', 'packet', 'payload', 'json'],
    'stub': ['requests (fake Session/Response/exceptions)',
             'websocket-client (fake create_connection/WebSocket)',
             'aiohttp.ClientSession (fake; the rest of aiohttp is real)',
             'threading/queue/time inside engineio.client (SimThread/'
             'SimQueue/virtual clock)', 'asyncio selector+clock (SimLoop)',
             'scripted Engine.IO v4 server']}
ASSUMPTIONS = [
    'the fake HTTP / WebSocket libraries raise what the real ones raise '
    '(documented per class in dsim/clientworld.py)',
    'pre-emption at yield points in every run; in about a quarter of the '
    'runs that involve threaded code also between source lines of engineio '
    'functions (sys.settrace; realisable under OS threads), a third of those '
    'as stall runs (the pre-empted thread stays away for up to 32 ticks of '
    'virtual time; oracles widened by the total injected); asyncio ready '
    'queue kept FIFO',
    'TCP never reorders or duplicates inside one connection']
LEVEL_NOTE = ('Trusted: sim primitives, the fake requests / websocket-client '
              '/ aiohttp.ClientSession (their fidelity to the real libraries '
              'is the main risk on the client side), the scripted server and '
              'the oracle\'s cause model.')
TECHNIQUE = ('deterministic simulation with fault injection: seeded '
             'schedule/fault/peer-script search + history oracle')
GRANULARITY = 'coop (yield points) + line (share of the threaded runs)'

"""C16  Session table hygiene: dead ids are inert, sessions isolated, nothing
leaks."""
from .. import gen as _gen
from .. import oracles
from ..kernel import TICK
from ..scenario import run_server_scenario
from ._common import *  # noqa

ID = 'C16'
SIZES = {'quick': 3000, 'thorough': 90000}
RULE = ('seeded plans: 2-8 sessions opened (accepted and rejected), closed by '
        'every cause, vanishing mid-poll / mid-upgrade / mid-handshake; '
        'send, get_session, save_session, session() and transport() with '
        'live, dead, rejected and foreign ids interleaved at drawn times; '
        'monitor on; horizon beyond last event + I + 6T so that the table '
        'can be compared with the model. Non-trivial: at least one API call '
        'hit a dead id and one a live id.')
REQUIRED_PROBES = {'quick': ['api_dead_id', 'api_live_id', 'table_checked'],
                   'thorough': ['api_dead_id', 'api_live_id',
                                'table_checked']}
PROFILE = _gen.profile(max_sessions=8, p_late_open=0.3, I=[1.0, 2.0], T=[0.5, 1.0, 2.0, 2.5],
                       p_upgrade=0.4, p_sabotage=0.3, sends=(0, 2),
                       client_msgs=(0, 1), p_end=0.7,
                       end_kinds=['close_packet', 'ws_close', 'drop',
                                  'vanish', 'vanish'],
                       p_app_disconnect=0.15, p_disconnect_all=0.0,
                       allow_polling_app_disconnect=0.0,
                       p_handler_fault=0.15, handler_actions=['raise', 'sleep'],
                       p_reject=0.25, p_no_monitor=0.0, p_ws_fault=0.15,
                       stalled_handshakes=True)


def gen(rng, tier, i):
    plan = _gen.gen_server_plan(rng, PROFILE)
    n = len(plan['sessions'])
    ops = []
    t = 0.2
    for k in range(rng.randint(4, 24)):
        t += rng.randint(1, 400) * TICK
        tgt = rng.random()
        op = {'t': t}
        if tgt < 0.75:
            op['c'] = rng.randrange(n)
        elif tgt < 0.9:
            op['sid'] = 'nobody-%d' % k
        else:
            op['sid'] = 'AAAAAAAAAAAAAAAAAAAA'
        kind = rng.choice(['send', 'get_session', 'get_session',
                           'save_session', 'session', 'transport'])
        op['op'] = kind
        if kind == 'send':
            op['data'] = {'k': 's', 'v': 'h%d' % k}
        if kind in ('save_session', 'session'):
            op['value'] = {'owner': op.get('c', -1), 'v%d' % k: k}
        ops.append(op)
    plan['app'] = sorted(plan['app'] + ops, key=lambda o: o['t'])
    cfg = plan['config']
    I, T = cfg['ping_interval'], cfg['ping_timeout']
    plan['horizon'] = max(plan['horizon'], t + 2.0,
                          PROFILE['span'] + 1.0 + 2 * I + 10 * T)
    return plan


gen = _gen.with_lines(gen, ['_service_task', 'disconnect', 'close', '_get_socket', 'send', 'handle_request', '_handle_connect'])
_gen_general = gen


def gen_reconnect(rng, tier, i):
    """Threaded server, line granularity: the table empties, the monitor idles,
    and the next client arrives in the very instant the monitor wakes up
    (it wakes every ping_timeout, counted from the first connection ever)."""
    plan = _gen.gen_server_plan(rng, _gen.profile(
        servers=['threaded'], max_sessions=1, I=[1.0, 2.0], T=[0.5, 1.0],
        p_upgrade=0.0, p_sabotage=0.0, sends=(0, 1), client_msgs=(0, 0),
        p_end=0.0, p_app_disconnect=0.0, p_disconnect_all=0.0,
        p_handler_fault=0.0, p_reject=0.0, p_no_monitor=0.0, p_ws_fault=0.0,
        p_overlap_polls=0.0, p_pong_misbehave=0.0, p_late_open=0.0,
        p_ws_open=0.0, span=3.0))
    a = plan['sessions'][0]
    T = plan['config']['ping_timeout']
    a['end'] = {'t': _gen.ticks(rng, 0.05, 0.4), 'how': 'close_packet'}
    b = {'open': rng.choice(['polling', 'polling', 'websocket']),
         't_open': a['t_open'] + rng.choice([1, 1, 1, 2, 2, 3, 4, 6]) * T,
         'poll': {'mode': 'auto', 'gap': 1}, 'upgrades': [],
         'pong': {'default': {'mode': 'prompt', 'delay': 1}}, 'msgs': [],
         'end': {'t': _gen.ticks(rng, 0.2, 1.5),
                 'how': rng.choice(['vanish', 'close_packet', 'vanish'])}}
    if rng.random() < 0.25:
        b['t_open'] += rng.choice([-1, 1]) * TICK
    plan['sessions'].append(b)
    plan['app'] = []
    plan['fixed_latency'] = 0
    plan['line'] = {'mean': rng.choice([2, 2, 4]), 'max': 64,
                    'focus': rng.choice([['_handle_connect'],
                                         ['_handle_connect'],
                                         ['_handle_connect',
                                          '_service_task']])}
    I = plan['config']['ping_interval']
    plan['horizon'] = b['t_open'] + 3.0 + 2 * I + 10 * T
    return plan


def gen(rng, tier, i):
    if rng.random() < 0.20:
        return gen_reconnect(rng, tier, i)
    return _gen_general(rng, tier, i)


gen.lines = True

def run(plan, sched_values=None, sched_seed=0):
    h = run_server_scenario(plan, sched_values, sched_seed)
    f = oracles.Facts(h)
    v = oracles.check_hygiene(h, f)
    pr = {}
    for a in h.world.api_calls:
        if 'sid' not in a or a['seq_start'] is None:
            continue
        b = a.get('before')
        k = 'api_dead_id' if (b is None or b['closed']) else 'api_live_id'
        pr[k] = pr.get(k, 0) + 1
    last = max([e['t'] for e in h.app.events] + [0.0])
    if f.end >= last + f.I + 6 * f.T:
        pr['table_checked'] = 1
    nt = pr.get('api_dead_id', 0) > 0 and pr.get('api_live_id', 0) > 0
    return oracles.outcome(h, v, pr, nt)


LEVEL_TEXT = ('Seeded search over long histories of opens, closes by every '
              'cause, vanishing clients and interleaved session-API calls '
              'on both servers; the calls are judged against a model map '
              '(sid -> user data; dead ids raise KeyError / are silent '
              'no-ops; data never crosses sessions) and, once faults have '
              'stopped for ping_interval + 6 x ping_timeout, the server\'s '
              'table must equal the model\'s live set. Sampling, not proof.')

"""C20  Gateway middleware routes by path only and static files stay inside
their roots."""
import asyncio
import atexit
import builtins
import os
import shutil
import tempfile

from .. import kernel as K
from .. import oracles
from ..oracles import V
from ..tape import Tape
from ..worlds import make_world
from ._common import *  # noqa

ID = 'C20'
SIZES = {'quick': 6000, 'thorough': 200000}
RULE = ('seeded generation of request paths (under / beside / prefix-sharing '
        'the endpoint, with and without trailing slash, ".", "..", empty and '
        'percent-looking segments, deep paths) x static mappings (file, '
        'directory with / without trailing slashes, default-file override, '
        'explicit content types) x endpoint settings (incl. None for ASGI) '
        'x presence of a wrapped app, for WSGIApp and ASGIApp over a scratch '
        'file tree with decoy files outside every mapped root (open() is '
        'wrapped to record the real path of every file served); plus ASGI '
        'lifespan conversations (startup / shutdown; sync, async and raising '
        'callbacks; with and without a wrapped app). Non-trivial: the run '
        'served a file, reached the wrapped app, or ran a lifespan script.')
REQUIRED_PROBES = {'quick': ['static_served', 'other_app', 'not_found',
                             'engineio', 'dotdot_path', 'lifespan'],
                   'thorough': ['static_served', 'other_app', 'not_found',
                                'engineio', 'dotdot_path', 'lifespan']}
WORLDS = ['ThreadedServerWorld(WSGIApp)', 'AsyncServerWorld(ASGIApp)']

_ROOT = None
EXT_TYPES = {'css': 'text/css', 'gif': 'image/gif', 'html': 'text/html',
             'jpg': 'image/jpeg', 'js': 'application/javascript',
             'json': 'application/json', 'png': 'image/png',
             'txt': 'text/plain'}


def scratch_root():
    """A per-process scratch tree, removed at exit."""
    global _ROOT
    if _ROOT is not None and os.path.isdir(_ROOT):
        return _ROOT
    base = os.environ.get('VERIF_SCRATCH') or (
        '/dev/shm' if os.path.isdir('/dev/shm') else None)
    _ROOT = tempfile.mkdtemp(prefix='dsim-c20-', dir=base)
    files = {
        'public/index.html': 'FILE:public/index.html',
        'public/app.js': 'FILE:public/app.js',
        'public/css/site.css': 'FILE:public/css/site.css',
        'public/sub/index.html': 'FILE:public/sub/index.html',
        'public/sub/alt.html': 'FILE:public/sub/alt.html',
        'public/alt.html': 'FILE:public/alt.html',
        'public/data.bin': 'FILE:public/data.bin',
        'public/noext': 'FILE:public/noext',
        'secret.txt': 'FILE:secret.txt',
        'public_secret/hidden.txt': 'FILE:public_secret/hidden.txt',
        'single.html': 'FILE:single.html',
        'alt.html': 'FILE:alt.html',
        'index.html': 'FILE:index.html',
    }
    for rel, content in files.items():
        p = os.path.join(_ROOT, rel)
        os.makedirs(os.path.dirname(p), exist_ok=True)
        with open(p, 'w') as fh:
            fh.write(content)
    root = _ROOT
    pid = os.getpid()

    def cleanup():
        if os.getpid() == pid:
            shutil.rmtree(root, ignore_errors=True)
    atexit.register(cleanup)
    return _ROOT


MAPPINGS = [
    {'/static': '{root}/public'},
    {'/static/': '{root}/public/'},
    {'/static': '{root}/public/'},
    {'/static/': '{root}/public'},
    {'/static': {'filename': '{root}/public'}},
    {'/': '{root}/public/index.html'},
    {'/': {'filename': '{root}/public/index.html',
           'content_type': 'text/plain'}},
    {'/file.txt': {'filename': '{root}/single.html',
                   'content_type': 'text/plain'}},
    {'/app.js': '{root}/public/app.js', '/static': '{root}/public'},
    {'/static': '{root}/public', '': 'alt.html'},
    {'/static': '{root}/public', '': {'filename': 'alt.html',
                                      'content_type': 'text/x-alt'}},
    {'/a/b': '{root}/public/sub', '/a': '{root}/public'},
    {'/engine.iox': '{root}/public'},
    {'/static': '{root}/public/css/site.css'},
    {'/': '{root}/public/'},
]
SEGMENTS = ['static', 'static', 'app.js', 'css', 'site.css', 'sub',
            'index.html', 'alt.html', '..', '..', '.', '', 'secret.txt',
            'public_secret', 'hidden.txt', 'file.txt', 'engine.io',
            'engine.iox', 'a', 'b', 'data.bin', 'noext', '%2e%2e', 'nope',
            'socket.io', 'single.html', 'public']


def gen_path(rng):
    r = rng.random()
    if r < 0.12:
        return rng.choice(['/engine.io/', '/engine.io', '/engine.io/x/y',
                           '/engine.iox', '/engine.iox/', '/engine.io//',
                           '/eio/', '/eio', '/eio/z', '/engine.io/../static'])
    n = rng.choice([1, 1, 2, 2, 3, 4, 6])
    path = '/' + '/'.join(rng.choice(SEGMENTS) for _ in range(n))
    if rng.random() < 0.25 and not path.endswith('/'):
        path += '/'
    return path


def gen(rng, tier, i):
    impl = rng.choice(['threaded', 'asyncio'])
    mapping = rng.choice(MAPPINGS + [None])
    ep = rng.choice(['engine.io', 'engine.io', '/engine.io/', 'eio',
                     '/eio'])
    paths = [gen_path(rng) for _ in range(rng.randint(2, 8))]
    if mapping and rng.random() < 0.5:
        # multi-step sequences under one mapping: the bare key first, then
        # files beneath it
        key = rng.choice([k for k in mapping if k] or ['/static'])
        base = key.rstrip('/')
        seq = [key, base, base + '/'] + [base + '/' + f for f in (
            'app.js', 'index.html', 'css/site.css', 'data.bin', 'noext',
            'sub/', 'sub/alt.html')]
        seq = [x for x in seq if x.startswith('/')]
        paths += [rng.choice(seq) for _ in range(rng.randint(2, 5))]
    plan = {'server': impl, 'static_files': mapping, 'engineio_path': ep,
            'with_other_app': rng.random() < 0.5,
            'paths': paths,
            'lifespan': None}
    if impl == 'asyncio':
        if rng.random() < 0.1:
            plan['engineio_path'] = None
        if rng.random() < 0.4:
            plan['lifespan'] = {
                'on_startup': rng.choice([None, 'sync', 'async', 'raise',
                                          'araise']),
                'on_shutdown': rng.choice([None, 'sync', 'async', 'raise',
                                           'araise']),
                'events': rng.choice([['startup', 'shutdown'], ['startup'],
                                      ['shutdown'],
                                      ['startup', 'startup', 'shutdown']])}
    return plan


def _subst(m, root):
    if m is None:
        return None
    out = {}
    for k, v in m.items():
        if isinstance(v, dict):
            v = dict(v)
            v['filename'] = v['filename'].replace('{root}', root)
        else:
            v = v.replace('{root}', root)
        out[k] = v
    return out


def ref_matches(path, mapping):
    """Mappings whose URL prefix covers ``path`` (reference router)."""
    out = []
    for key, val in (mapping or {}).items():
        if key == '':
            continue
        k = key.rstrip('/')
        if path == key or path == k or path.startswith(k + '/') or k == '':
            out.append((key, val))
    return out


def run(plan, sched_values=None, sched_seed=0):
    tape = Tape(seed=sched_seed, values=sched_values)
    k = K.Kernel(tape, horizon=30.0, step_cap=50000)
    root = scratch_root()
    mapping = _subst(plan.get('static_files'), root)
    mw = {'with_other_app': plan.get('with_other_app', False)}
    if mapping is not None:
        # the application gets its own copy: the oracle's reference mapping
        # must not see anything the code under test writes into it
        mw['static_files'] = _subst(plan.get('static_files'), root)
    if plan['server'] == 'asyncio' or plan.get('engineio_path') is not None:
        mw['engineio_path'] = plan.get('engineio_path')
    ls = plan.get('lifespan')
    calls = []
    if ls:
        def mk(kind, name):
            if kind is None:
                return None
            if kind == 'sync':
                return lambda: calls.append(name)
            if kind == 'raise':
                def f():
                    calls.append(name)
                    raise RuntimeError('injected')
                return f
            if kind == 'async':
                async def g():
                    calls.append(name)
                return g

            async def g2():
                calls.append(name)
                raise RuntimeError('injected')
            return g2
        mw['on_startup'] = mk(ls.get('on_startup'), 'startup')
        mw['on_shutdown'] = mk(ls.get('on_shutdown'), 'shutdown')
    world = make_world(plan['server'], k, config={}, mw_opts=mw)
    world.redact = root
    opened = []
    real_open = builtins.open

    def spy_open(file, *a, **kw):
        opened.append(os.path.realpath(file))
        return real_open(file, *a, **kw)
    import engineio.middleware as _mw
    import engineio.async_drivers.asgi as _asgi
    _mw.open = spy_open
    _asgi.open = spy_open
    violations = []
    probes = {}
    results = []
    ls_out = None
    try:
        t = 0.0
        for p in plan['paths']:
            t += 0.25

            def issue(p=p):
                before = len(opened)
                req = world.http(0, 'GET', 'transport=polling&EIO=4&c=0',
                                 path=p, cb=None, tag='route')
                req.open_mark = before
                results.append(req)
            k.at(t, issue, 'route')
        if ls:
            sent = []
            q = list(ls['events'])

            async def lifespan():
                async def receive():
                    if q:
                        return {'type': 'lifespan.' + q.pop(0)}
                    await asyncio.sleep(3600)
                    return {'type': 'lifespan.shutdown'}

                async def send(ev):
                    sent.append(ev)
                try:
                    await world.gateway_app({'type': 'lifespan'}, receive,
                                            send)
                    sent.append({'type': 'returned'})
                except asyncio.CancelledError:
                    raise
                except BaseException as e:  # noqa
                    sent.append({'type': 'raised', 'exc': repr(e)})
            world.loop.spawn(lifespan(), 'lifespan')
            ls_out = sent
        k.run(until=t + 5.0)
        impl = world.impl
        ep = plan.get('engineio_path')
        ep_norm = None if ep is None else '/' + ep.strip('/') + '/'
        for req in results:
            violations.extend(_judge(plan, impl, req, opened, mapping, root,
                                     ep_norm, probes))
        if ls:
            violations.extend(_judge_lifespan(plan, ls, ls_out, calls,
                                              world, probes))
        digest = k.log_digest()
    finally:
        leaked = k.shutdown()
        world.close()
        for m in (_mw, _asgi):
            if 'open' in m.__dict__:
                del m.__dict__['open']
    nt = any(probes.get(x) for x in ('static_served', 'other_app',
                                     'lifespan'))
    return {'violations': violations, 'probes': probes, 'faults': {},
            'sim_s': k.now, 'digest': digest,
            'sched_digest': k.sched_digest.hexdigest(), 'states': [],
            'nontrivial': nt, 'sched': tape.recorded(),
            'summary': {'impl': plan['server'], 'paths': plan['paths'],
                        'answers': [r.status for r in results]},
            'leaked': leaked, 'extra': {}}


def _judge(plan, impl, req, opened, mapping, root, ep_norm, probes):
    out = []
    path = req.path
    shape = _path_shape(path)
    if '..' in path.split('/'):
        probes['dotdot_path'] = probes.get('dotdot_path', 0) + 1
    if req.escaped or req.status is None or req.status >= 500:
        exc = (req.escaped or 'status %s' % req.status).split(':')[0]
        out.append(V('routing-total', '%s|request-failed|%s|%s' % (
            impl, exc, _map_shape(plan, path)),
            '%s GET %r (static_files=%r): %s' % (
                impl, path, plan.get('static_files'),
                req.escaped or 'status %s' % req.status)))
        return out
    body = req.resp_body or b''
    hdrs = {a.lower(): b for a, b in req.resp_headers or []}
    if body.startswith(b'FILE:'):
        who = 'static'
    elif body == b'other-app':
        who = 'other'
    elif req.status == 404 and body == b'Not Found':
        who = '404'
    else:
        who = 'engineio'
    probes[{'static': 'static_served', 'other': 'other_app',
            '404': 'not_found', 'engineio': 'engineio'}[who]] = \
        probes.get({'static': 'static_served', 'other': 'other_app',
                    '404': 'not_found', 'engineio': 'engineio'}[who], 0) + 1
    # --- the endpoint -------------------------------------------------------
    if ep_norm is None:
        under = True
        bare = False
    else:
        under = path.startswith(ep_norm)
        bare = path == ep_norm[:-1]
    if under and who != 'engineio':
        out.append(V('routing-endpoint', '%s|endpoint-path-not-routed|%s' % (
            impl, who), 'GET %r lies under the endpoint %r but was '
            'answered by %s' % (path, ep_norm, who)))
        return out
    if not under and not bare and who == 'engineio':
        out.append(V('routing-endpoint', '%s|foreign-path-reached-engineio|'
                     '%s' % (impl, shape),
                     'GET %r does not lie under the endpoint %r but reached '
                     'the Engine.IO server (status %s, body %r)' % (
                         path, ep_norm, req.status, body[:40])))
        return out
    if under or (bare and who == 'engineio'):
        return out
    # --- static files -------------------------------------------------------
    matches = ref_matches(path, mapping)
    if who == 'static':
        served = opened[req.open_mark:]
        rel = body[5:].decode()
        real = os.path.realpath(os.path.join(root, rel))
        if not matches:
            out.append(V('static-only-mapped', '%s|unmapped-path-served' %
                         impl, 'GET %r matches no static mapping %r but '
                         'file %s was served' % (path, plan['static_files'],
                                                 rel)))
            return out
        ok = False
        ctype_ok = False
        for key, val in matches:
            fn = val['filename'] if isinstance(val, dict) else val
            target = os.path.realpath(fn)
            if os.path.isdir(target):
                inside = real.startswith(target + os.sep)
            else:
                inside = real == target
            if inside:
                ok = True
                want = val.get('content_type') if isinstance(val, dict) \
                    else None
                dflt = (mapping or {}).get('')
                alt = dflt.get('content_type') if isinstance(dflt, dict) \
                    else None
                ext = rel.rsplit('.')[-1]
                cands = {want} if want else {
                    EXT_TYPES.get(ext, 'application/octet-stream')}
                if alt:
                    cands.add(alt)
                if hdrs.get('content-type') in cands:
                    ctype_ok = True
        if not ok:
            out.append(V('static-containment', '%s|served-file-outside-root|'
                         '%s' % (impl, shape),
                         'GET %r (static_files=%r) served %s, which is '
                         'neither a mapped file nor beneath a mapped '
                         'directory' % (path, plan['static_files'], rel)))
        elif not ctype_ok:
            out.append(V('static-content-type', '%s|wrong-content-type' %
                         impl, 'GET %r served %s with Content-Type %r' % (
                             path, rel, hdrs.get('content-type'))))
        return out
    # not served as a file: was there one to serve?
    clean = all(seg not in ('..', '.', '') for seg in path.split('/')[1:]) \
        or path.endswith('/') and all(
            seg not in ('..', '.', '') for seg in path.split('/')[1:-1])
    if matches and clean and '%' not in path:
        # deepest mapping decides, as documented
        key, val = max(matches, key=lambda kv: len(kv[0].rstrip('/')))
        fn = val['filename'] if isinstance(val, dict) else val
        rest = path[len(key.rstrip('/')):]
        cand = fn.rstrip('/') + rest if (rest or fn.endswith('/')) else fn
        if os.path.isdir(os.path.realpath(fn)):
            if cand.endswith('/') or rest == '':
                cand = None        # default-file resolution: not asserted
        if cand and os.path.isfile(cand) and \
                os.path.realpath(cand).startswith(os.path.realpath(root)):
            out.append(V('static-served-when-exists',
                         '%s|existing-mapped-file-not-served|%s' % (impl,
                                                                    who),
                         'GET %r maps to the existing file %s but was '
                         'answered by %s' % (path, os.path.relpath(
                             cand, root), who)))
            return out
    want = 'other' if plan.get('with_other_app') else '404'
    if who != want:
        out.append(V('routing-fallback', '%s|wrong-fallback|%s-not-%s' % (
            impl, who, want), 'GET %r: expected %s, answered by %s' % (
                path, want, who)))
    return out


def _path_shape(path):
    segs = path.split('/')
    if '..' in segs:
        return 'dotdot'
    if path.startswith('/engine.io'):
        return 'endpoint-prefix'
    return 'plain'


def _map_shape(plan, path):
    m = plan.get('static_files') or {}
    for key, val in m.items():
        fn = val['filename'] if isinstance(val, dict) else val
        if key and path.rstrip('/') == key.rstrip('/') and \
                not fn.endswith('/') and '.' not in fn.rsplit('/', 1)[-1]:
            return 'dir-mapping-exact-path'
    return 'other'


def _judge_lifespan(plan, ls, sent, calls, world, probes):
    out = []
    probes['lifespan'] = probes.get('lifespan', 0) + 1
    types = [e.get('type') for e in sent or []]
    if plan.get('with_other_app') and ls.get('on_startup') is None and \
            ls.get('on_shutdown') is None:
        # passed through to the wrapped app
        if not all(e.get('x-other') for e in sent
                   if e.get('type', '').startswith('lifespan.')):
            out.append(V('lifespan', 'asyncio|lifespan-not-passed-through',
                         'no callbacks configured and a wrapped app present,'
                         ' yet ASGIApp answered lifespan itself: %r' % types))
        return out
    exp = []
    for ev in ls['events']:
        cb = ls.get('on_' + ev)
        if cb in ('raise', 'araise'):
            exp.append('lifespan.%s.failed' % ev)
            break
        exp.append('lifespan.%s.complete' % ev)
        if ev == 'shutdown':
            break
    got = [t for t in types if t.startswith('lifespan.')]
    if got != exp:
        out.append(V('lifespan', 'asyncio|lifespan-replies|%s' % (
            '+'.join(exp) or 'none'),
            'lifespan events %r with callbacks %r/%r: replies %r, expected '
            '%r' % (ls['events'], ls.get('on_startup'),
                    ls.get('on_shutdown'), got, exp)))
    if 'raised' in types:
        out.append(V('lifespan', 'asyncio|lifespan-exception-escaped',
                     'lifespan raised: %r' % sent[-1]))
    return out


LEVEL_TEXT = ('Seeded generation of paths, static mappings, endpoint '
              'settings and lifespan scripts, each request a real call '
              'through WSGIApp / ASGIApp over a scratch file tree with decoy '
              'files; a reference router decides which downstream must '
              'answer, the open() seam proves which file was read (realpath '
              'containment), content types are checked, and ASGI lifespan '
              'replies are compared with the protocol. Input generation '
              'plus a file-system seam; the schedule dimension is trivial '
              '(one request at a time); sampling, not proof.')
LEVEL_NOTE = ('Trusted: gateway actors, reference router, the open() spy. '
              'PATH_INFO / scope path are given already percent-decoded, as '
              'real servers deliver them.')

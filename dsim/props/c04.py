"""C04  Client-to-server packets are acted on exactly once, in order, by
type."""
from .. import gen as _gen
from .. import oracles
from ..scenario import run_server_scenario
from ._common import *  # noqa

ID = 'C04'
SIZES = {'quick': 5000, 'thorough': 150000}
RULE = ('seeded plans: client messages and raw POST bodies / WebSocket frames '
        'built from all ten type digits, every payload kind, CLOSE and '
        'invalid packets at every position, on polling, websocket and '
        'mid-upgrade sessions, both handler dispatch modes; reference '
        'dispatcher decides which message events must / may / must not fire.'
        ' Non-trivial: at least one MESSAGE reached a live session.')
REQUIRED_PROBES = {'quick': ['msg_event', 'raw_body', 'raw_frame'],
                   'thorough': ['msg_event', 'raw_body', 'raw_frame',
                                'refused_type_post']}
PROFILE = _gen.profile(sends=(0, 2), client_msgs=(0, 6), p_raw_bodies=0.6,
                       p_end=0.3, p_app_disconnect=0.05,
                       p_disconnect_all=0.0, p_handler_fault=0.1,
                       handler_actions=['raise', 'raise', 'send'],
                       p_reject=0.05)


def gen(rng, tier, i):
    lim = rng.choice([16, 16, 16, 2, 3, 17])
    prof = dict(PROFILE, packet_limit=lim)
    plan = _gen.gen_server_plan(rng, prof)
    plan['app_opts']['max_decode_packets'] = lim
    return plan


gen = _gen.with_lines(gen, ['receive', 'handle_post_request', '_trigger_event', 'run_handler', '_websocket_handler', 'close'])

def run(plan, sched_values=None, sched_seed=0):
    h = run_server_scenario(plan, sched_values, sched_seed)
    f = oracles.Facts(h)
    v = oracles.check_dispatch(h, f)
    pr = {'msg_event': sum(1 for e in h.app.events if e['ev'] == 'message')}
    for c in h.clients:
        pr['raw_body'] = pr.get('raw_body', 0) + sum(
            1 for r in c.posts if r.tag == 'rawpost')
        pr['raw_frame'] = pr.get('raw_frame', 0) + len(
            c.spec.get('frames', []))
        for r in c.posts:
            if r.tag == 'rawpost' and r.status == 400:
                pr['refused_type_post'] = pr.get('refused_type_post', 0) + 1
    return oracles.outcome(h, v, pr, pr['msg_event'] > 0)


LEVEL_TEXT = ('Seeded search over bodies/frames (all type digits, payload '
              'kinds, terminators at every position) arriving as traffic '
              'from a scripted peer at drawn points of live session '
              'histories on both servers; message events are compared by '
              'value and Python type with a reference dispatcher (exactly '
              'once; wire order for synchronous handlers; none for refused '
              'bodies). Input generation inside simulated conversations; '
              'sampling, not proof.')

"""C19  Response transformations (compression, JSONP) are lossless and well
labelled."""
from .. import gen as _gen
from .. import oracles
from ..kernel import TICK
from ..scenario import run_server_scenario
from ._common import *  # noqa

ID = 'C19'
SIZES = {'quick': 4000, 'thorough': 120000}
RULE = ('seeded plans: polling sessions (incl. JSONP with drawn indices) '
        'whose application messages carry quotes, backslashes, CR/LF, '
        'U+2028/2029, control and non-BMP characters and binary data; '
        'Accept-Encoding shapes (absent, gzip, deflate, both orders, '
        'q-values incl. q=0, unknown codings, spaces, case); '
        'http_compression on/off; compression_threshold at body size '
        '-1/0/+1. The scripted client decodes like a browser (declared '
        'Content-Encoding only; JSONP by an ECMAScript string-literal '
        'evaluator) and the result is compared with what the application '
        'sent. Non-trivial: at least one response was compressed or JSONP.')
REQUIRED_PROBES = {'quick': ['jsonp_response', 'compressed_response',
                             'nasty_payload_delivered'],
                   'thorough': ['jsonp_response', 'compressed_response',
                                'nasty_payload_delivered', 'q0_offer']}

NASTY = ['"', '\\', '\\"', '\n', '\r\n', ' ', ' ', '\x00', '\x1f',
         '\x7f', '\U0001F600', 'é', '</script>', "'", '\\u0041', '\\n',
         '");alert(1);("', '\t', '\x08\x0c', '퟿', '']
ACCEPT = [None, None, 'gzip', 'deflate', 'gzip, deflate', 'deflate, gzip',
          'gzip;q=0', 'gzip;q=0, deflate', 'deflate;q=0.5, gzip;q=1.0',
          'br', 'br, gzip', ' gzip ', 'GZIP', 'identity', '*',
          'gzip;q=0.0', 'x-gzip', 'gzip ; q=0', '', 'Gzip, Deflate',
          'DEFLATE;q=1.0', 'Deflate', 'gZip']


def gen(rng, tier, i):
    prof = _gen.profile(max_sessions=2, p_upgrade=0.1, p_sabotage=0.0,
                        p_second_upgrade=0.0, sends=(2, 10),
                        client_msgs=(0, 1), p_end=0.05,
                        p_app_disconnect=0.0, p_disconnect_all=0.0,
                        p_handler_fault=0.0, p_reject=0.0, p_ws_fault=0.0,
                        p_overlap_polls=0.0, p_pong_misbehave=0.0, span=4.0,
                        p_ws_open=0.0, p_jsonp=0.5, I=[2.0, 4.0],
                        T=[1.0, 2.0])
    plan = _gen.gen_server_plan(rng, prof)
    cfg = plan['config']
    if rng.random() < 0.25:
        cfg['http_compression'] = False
    n = 0
    sizes = []
    for op in plan['app']:
        if op['op'] != 'send':
            continue
        n += 1
        r = rng.random()
        if r < 0.6:
            junk = ''.join(rng.choice(NASTY) for _ in range(rng.randint(
                1, 6)))
            op['data'] = {'k': 's', 'v': 'n%d:%s' % (n, junk)}
        elif r < 0.75:
            op['data'] = {'k': 's', 'v': 'n%d:' % n + 'x' * rng.choice(
                [10, 100, 1000, 3000])}
        elif r < 0.85:
            op['data'] = {'k': 'j', 'v': {'n': n, 's': ''.join(
                rng.choice(NASTY) for _ in range(3))}}
        sizes.append(len(str(op['data'].get('v'))))
    base = rng.choice(sizes) if sizes else 100
    cfg['compression_threshold'] = max(0, rng.choice(
        [1024, 0, 1, base, base + 1, base + 2, base - 1, base + 3, 50]))
    for s in plan['sessions']:
        ae = rng.choice(ACCEPT)
        hdrs = [h for h in s.get('headers', [])]
        if ae is not None:
            hdrs.append(['Accept-Encoding', ae])
        s['headers'] = hdrs
        if s.get('jsonp') is not None:
            s['jsonp'] = rng.choice([0, 1, 7, 233, 99999, -1])
    return plan


def run(plan, sched_values=None, sched_seed=0):
    h = run_server_scenario(plan, sched_values, sched_seed)
    f = oracles.Facts(h)
    v = oracles.check_transformations(h, f)
    v += [x for x in oracles.check_delivery(h, f)
          if x['clause'] in ('delivery-integrity', 'complete',
                             'at-most-once')]
    pr = {}
    for req in h.world.requests:
        if req.kind != 'http' or req.status != 200:
            continue
        if 'j=' in req.query and req.method == 'GET':
            pr['jsonp_response'] = pr.get('jsonp_response', 0) + 1
        if any(k.lower() == 'content-encoding'
               for k, _v in req.resp_headers or []):
            pr['compressed_response'] = pr.get('compressed_response', 0) + 1
        if any(k.lower() == 'accept-encoding' and 'q=0' in _v.replace(
                ' ', '') for k, _v in req.headers):
            pr['q0_offer'] = pr.get('q0_offer', 0) + 1
    for c in h.clients:
        for r in c.recv:
            if r['ptype'] == 4 and isinstance(r['data'], str) and \
                    r['data'].startswith('n') and any(
                        ch in r['data'] for ch in '"\\\n '):
                pr['nasty_payload_delivered'] = pr.get(
                    'nasty_payload_delivered', 0) + 1
    nt = bool(pr.get('jsonp_response') or pr.get('compressed_response'))
    return oracles.outcome(h, v, pr, nt)


LEVEL_TEXT = ('Seeded generation of payload characters, Accept-Encoding '
              'shapes, compression settings/thresholds and JSONP indices '
              'riding on real polling conversations with both servers; the '
              'scripted client undoes only what the response declares and '
              'evaluates the JSONP call by ECMAScript string-literal rules; '
              'result must equal what the application sent; a declared '
              'Content-Encoding must have been offered (RFC 9110), enabled '
              'and above the threshold. Input / configuration generation '
              'inside simulated conversations; sampling, not proof.')

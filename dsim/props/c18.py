"""C18  Threaded and asyncio servers are observationally equivalent."""
import copy

from .. import gen as _gen
from .. import oracles
from .. import refmodel as R
from ..kernel import TICK
from ..oracles import V, _key, _short
from ..scenario import run_server_scenario
from ._common import *  # noqa

ID = 'C18'
SIZES = {'quick': 2500, 'thorough': 80000}
RULE = ('differential replay: one seeded plan (opens, polls, posts, frames, '
        'upgrade handshakes incl. sabotaged ones, application sends and '
        'disconnects, client closes / drops / vanishing, raw admission '
        'requests, clock advances across heartbeat deadlines; actions on a '
        'grid of 16 ticks, network latency fixed at 1 tick so that both '
        'executions see the same history) is executed against '
        'ThreadedServerWorld and AsyncServerWorld under the same virtual '
        'clock; compared per session: application events (kind, payload, '
        'order; multiset for background handlers; disconnect reason for '
        'client- and application-initiated ends), MESSAGE packets handed to '
        'the client with their transport, admission statuses, liveness and '
        'transport at every snapshot. Non-trivial: both executions produced '
        'at least one session event beyond connect.')
REQUIRED_PROBES = {'quick': ['compared_sessions', 'compared_raw',
                             'compared_snapshots', 'upgrades'],
                   'thorough': ['compared_sessions', 'compared_raw',
                                'compared_snapshots', 'upgrades']}
WORLDS = ['ThreadedServerWorld and AsyncServerWorld, same plan, same clock']
GRID = 16 * TICK
PROFILE = _gen.profile(max_sessions=3, p_upgrade=0.5, p_sabotage=0.3,
                       p_second_upgrade=0.2, sends=(0, 5),
                       client_msgs=(0, 4), p_end=0.5,
                       end_kinds=['close_packet', 'close_packet', 'ws_close',
                                  'drop', 'vanish'],
                       p_app_disconnect=0.2,
                       allow_polling_app_disconnect=0.0,
                       p_disconnect_all=0.0, p_handler_fault=0.1,
                       handler_actions=['raise'], p_reject=0.15,
                       p_ws_fault=0.0, p_overlap_polls=0.0,
                       p_pong_misbehave=0.1, p_no_monitor=0.0,
                       undecodable_frames=True, p_stop_polling=0.0,
                       p_raw_bodies=0.25, p_late_open=0.0)


def _snap(t):
    return round(t / GRID) * GRID


def _walk_times(obj):
    if isinstance(obj, dict):
        for k in list(obj):
            if k in ('t', 't_open') and isinstance(obj[k], (int, float)):
                obj[k] = _snap(obj[k])
            elif k == 'extra' and isinstance(obj[k], list):
                obj[k] = [_snap(x) for x in obj[k]]
            else:
                _walk_times(obj[k])
    elif isinstance(obj, list):
        for x in obj:
            _walk_times(x)


def gen(rng, tier, i):
    plan = _gen.gen_server_plan(rng, PROFILE)
    _gen.add_raw_requests(rng, plan, (0, 3), PROFILE['span'])
    for s in plan['sessions']:
        s['poll']['gap'] = 2
        # no refused-type POST bodies / oversize bodies here: on a polling
        # session they hang the threaded server's request (K1, C04/C15)
        s['raw'] = [r for r in s.get('raw', [])
                    if not (r['method'] == 'POST' and r.get('body') in
                            ('6', '9', '3', '1'))]
        pong = s.get('pong', {})
        pong['default'] = {'mode': 'prompt', 'delay': 2}
    _walk_times(plan)
    # distinct actions never share a tick
    used = set()

    def bump(o, key):
        t = o[key]
        while t in used:
            t += GRID
        used.add(t)
        o[key] = t
    for s in plan['sessions']:
        bump(s, 't_open')
        # actions of one session never share a tick either
        mine = set()
        items = []
        for key in ('msgs', 'posts', 'frames', 'raw', 'upgrades'):
            items += [(o, 't') for o in s.get(key) or []]
        if s.get('end'):
            items.append((s['end'], 't'))
        for o, key in sorted(items, key=lambda x: x[0][x[1]]):
            t = o[key]
            while t in mine:
                t += GRID
            mine.add(t)
            o[key] = t
        for key in ('msgs', 'posts', 'frames', 'raw', 'upgrades'):
            if s.get(key):
                s[key].sort(key=lambda o: o['t'])
    for o in plan['app']:
        bump(o, 't')
    plan['app'].sort(key=lambda o: o['t'])
    plan['fixed_latency'] = 1
    cfg = plan['config']
    end = plan['horizon']
    plan['snapshots'] = [round(x * 0.5 + 0.25 + 5 * TICK, 6)
                         for x in range(int(end * 2))]
    plan.pop('server', None)
    return plan


def _summ(h):
    """Comparable summary of one execution, keyed by client index."""
    f = oracles.Facts(h)
    out = {}
    for c in h.clients:
        sids = h.app.sid_of.get(c.idx, [])
        evs = []
        for sid in sids:
            s = f.sess.get(sid)
            if s is None:
                continue
            for e in s['events']:
                evs.append((e['ev'], e['arg'], sid, e['t']))
        msgs = [(r['data'], 'ws' if r['chan'] in ('ws', 'upg') else 'poll')
                for r in c.recv if r['ptype'] == R.MESSAGE]
        raws = [(r.raw_spec.get('method'), r.raw_spec.get('query'),
                 r.status if r.kind == 'http' else
                 ('accepted' if r.ws.accepted else 'refused'),
                 r.t_issue, r.query, r.t_done)
                for r in c.raws]
        out[c.idx] = {'events': evs, 'msgs': msgs, 'raws': raws,
                      'sid': c.sid, 'causes': {
                          sid: [(cz['kind'], cz['t']) for cz in
                                f.causes(sid)] for sid in sids
                          if sid in f.sess}}
    snaps = []
    for (sq, t, snap) in h.snaps:
        row = {}
        for c in h.clients:
            st = snap.get(c.sid) if c.sid else None
            if st is None or st['closed']:
                row[c.idx] = None
            else:
                row[c.idx] = 'websocket' if st['upgraded'] else 'polling'
        snaps.append((t, row))
    return out, snaps, f


IMMEDIATE = ('client_close', 'app_disconnect', 'ws_close', 'protocol_error',
             'too_long', 'bad_frame')


def run(plan, sched_values=None, sched_seed=0):
    pa = copy.deepcopy(plan)
    pa['server'] = 'threaded'
    pb = copy.deepcopy(plan)
    pb['server'] = 'asyncio'
    # deterministic scheduling (the property quantifies over histories, not
    # schedules): the canonical all-zero tape for both executions
    ha = run_server_scenario(pa, [], 0)
    hb = run_server_scenario(pb, [], 0)
    sa, na, fa = _summ(ha)
    sb, nb, fb = _summ(hb)
    v = []
    pr = {}
    bg = plan['config'].get('async_handlers', True)
    I = plan['config']['ping_interval']
    T = plan['config']['ping_timeout']
    stuck = _k1_present(ha) or _k1_present(hb)
    # when each server saw each session end (a raw request may address
    # another client's session)
    DA = {i: [(arg, t) for ev, arg, sid, t in sa[i]['events']
              if ev == 'disconnect'] for i in sa}
    DB = {i: [(arg, t) for ev, arg, sid, t in sb[i]['events']
              if ev == 'disconnect'] for i in sb}
    # a session that somebody else polls as well (a session id is a bearer
    # token) hands each packet to whichever reader the server wakes first:
    # what its own client sees, and therefore does, is not comparable
    contended = set()
    lapsed = set()
    for idx in sa:
        for j in sa:
            if j != idx and sa[idx]['sid'] and any(
                    r[0] == 'GET' and ('sid=%s' % sa[idx]['sid']) in
                    (r[4] or '') for r in sa[j]['raws']):
                contended.add(idx)
    for idx in sorted(sa):
        a, b = sa[idx], sb.get(idx)
        if b is None:
            continue
        if idx in contended:
            pr['contended_session_skipped'] = pr.get(
                'contended_session_skipped', 0) + 1
            continue
        pr['compared_sessions'] = pr.get('compared_sessions', 0) + 1
        # ---- application events ------------------------------------------------
        ea = [(ev, arg) for (ev, arg, sid, t) in a['events']]
        eb = [(ev, arg) for (ev, arg, sid, t) in b['events']]
        ca = [e for e in ea if e[0] == 'connect']
        cb = [e for e in eb if e[0] == 'connect']
        if len(ca) != len(cb):
            v.append(V('same-events', 'diff|connect-count',
                       'client %d: %d sessions on threaded, %d on asyncio' %
                       (idx, len(ca), len(cb))))
            continue
        ma = [arg for ev, arg in ea if ev == 'message']
        mb = [arg for ev, arg in eb if ev == 'message']
        # (synchronous handlers: dispatch order is compared, except among
        # messages that reached the server in the same instant on different
        # channels - a tie)
        ta = sorted(((t, repr(_key(arg))) for ev, arg, sid, t in a['events']
                     if ev == 'message'))
        tb = sorted(((t, repr(_key(arg))) for ev, arg, sid, t in b['events']
                     if ev == 'message'))
        same = (sorted(map(_key, ma), key=repr) ==
                sorted(map(_key, mb), key=repr)) if bg else \
            ([_key(x) for x in ma] == [_key(x) for x in mb] or
             [k for _t, k in ta] == [k for _t, k in tb])
        if not same and not _ended_differently(a, b, T):
            only_a = [x for x in ma if _key(x) not in set(map(_key, mb))]
            only_b = [x for x in mb if _key(x) not in set(map(_key, ma))]
            # (a message that reaches the server in the instant the session
            # ends for another reason is a tie: either order is right)
            ends = [t for ev, arg, sid, t in a['events'] + b['events']
                    if ev == 'disconnect']
            tied = {_key(arg) for ev, arg, sid, t in a['events'] + b['events']
                    if ev == 'message' and
                    any(abs(t - te) <= 4 * TICK for te in ends)}
            if (only_a or only_b) and all(_key(x) in tied
                                          for x in only_a + only_b):
                pr['message_tied_with_end'] = 1
                continue
            v.append(V('same-events', 'diff|message-events|%s' % (
                'only-threaded' if only_a else ('only-asyncio' if only_b
                                                else 'order')),
                'client %d: message events differ: threaded %r, asyncio %r'
                % (idx, [_short(x) for x in ma][:8],
                   [_short(x) for x in mb][:8])))
        da = [(arg, t) for ev, arg, sid, t in a['events']
              if ev == 'disconnect']
        db = [(arg, t) for ev, arg, sid, t in b['events']
              if ev == 'disconnect']
        causes = [cz for sid in a['causes'] for cz in a['causes'][sid]]
        # (per session: a client may have had several)
        for sid in a['causes']:
            sda = [(arg, t) for ev, arg, s_, t in a['events']
                   if ev == 'disconnect' and s_ == sid]
            sdb = [(arg, t) for ev, arg, s_, t in b['events']
                   if ev == 'disconnect' and s_ == sid]
            scz = a['causes'][sid]
            imm = [cz for cz in scz if cz[0] in IMMEDIATE]
            if len(sda) != len(sdb):
                # one side ended by silence only: both must be gone by the
                # bound
                end = min(ha.final['now'], hb.final['now'])
                sil = [cz for cz in scz if cz[0] in ('silence',
                                                      'poll_timeout')]
                late = [t for _r, t in (sda + sdb)]
                grey = (not imm and sil and (
                    not late or max(late) > end - (I + 3 * T + 1))) or stuck
                if not grey and not imm and sil:
                    # a peer that missed a deadline and then answered again
                    # is not silent: the server that happened to look during
                    # the lapse ends the session, the other need not
                    fs = fa if len(sda) < len(sdb) else fb
                    t0 = min(cz[1] for cz in sil)
                    if sid in fs.sess and any(
                            t >= t0 - T for t in fs.pong_arrivals(sid, True)):
                        grey = True
                        lapsed.add(idx)
                        pr['lapse_then_pong'] = 1
                if not grey and not imm:
                    # several reads pending on the session at once (the
                    # client's own polls and raw GETs naming its session):
                    # which of them is handed the next packet and which sits
                    # out its time-out - ending the session - is a tie
                    # between readers
                    pt = [cz for cz in scz + b['causes'].get(sid, [])
                          if cz[0] == 'poll_timeout']
                    if pt and any(r[0] == 'GET' and ('sid=%s' % sid) in
                                  (r[4] or '') for r in a['raws']):
                        grey = True
                        lapsed.add(idx)
                        pr['starved_reader'] = 1
                if not grey:
                    v.append(V('same-events',
                               'diff|disconnect-count|%d-vs-%d' % (
                                   len(sda), len(sdb)),
                               'client %d session %s: threaded saw '
                               'disconnects %r, asyncio %r (causes %r)' % (
                                   idx, sid, sda, sdb, scz[:4])))
            elif sda and imm and sda[0][0] != sdb[0][0]:
                first = min(imm, key=lambda x: x[1])
                if all(x is first or x[1] > first[1] + 4 * TICK
                       for x in scz) and not stuck and \
                        first[1] <= min(sda[0][1], sdb[0][1]) + 4 * TICK:
                    v.append(V('same-reason',
                               'diff|disconnect-reason|%s|%s-vs-%s' % (
                                   first[0], sda[0][0], sdb[0][0]),
                               'client %d session %s: end cause %s at '
                               't=%.4f: threaded reports %r, asyncio %r' % (
                                   idx, sid, first[0], first[1], sda[0][0],
                                   sdb[0][0])))
        # ---- messages handed to the client --------------------------------------
        if a['msgs'] != b['msgs'] and not _ended_differently(a, b, T) and \
                len(da) == len(db):
            ka = [(_key(d), ch) for d, ch in a['msgs']]
            kb = [(_key(d), ch) for d, ch in b['msgs']]
            if sorted(ka, key=repr) != sorted(kb, key=repr):
                # same payloads must arrive on the same transport
                pa_ = {k: ch for k, ch in ka}
                pb_ = {k: ch for k, ch in kb}
                moved = [k for k in pa_ if k in pb_ and pa_[k] != pb_[k]]
                missing = [k for k in pa_ if k not in pb_] + \
                    [k for k in pb_ if k not in pa_]
                v.append(V('same-delivery', 'diff|client-messages|%s' % (
                    'transport' if moved and not missing else 'set'),
                    'client %d: messages handed over differ: threaded %r, '
                    'asyncio %r' % (idx, [(_short(d), ch)
                                          for d, ch in a['msgs']][:8],
                                    [(_short(d), ch)
                                     for d, ch in b['msgs']][:8])))
            elif [k for k, _c in ka] != [k for k, _c in kb]:
                v.append(V('same-delivery', 'diff|client-message-order',
                           'client %d: messages handed over in a different '
                           'order' % idx))
        # ---- admission -------------------------------------------------------------
        for ra, rb in zip(a['raws'], b['raws']):
            pr['compared_raw'] = pr.get('compared_raw', 0) + 1
            if ra[2] in ('accepted', 'refused') and \
                    'transport=websocket' not in (ra[1] or ''):
                # a websocket-shaped request that names the polling
                # transport: how an HTTP answer is rendered on a websocket
                # request is the gateway driver's business
                continue
            # a read that is still pending when the session ends competes
            # with the session's other pending reads for the last packets;
            # which of them is served and which runs into its time-out is a
            # tie between readers
            # (a raw request may address another client's session: the
            # ends of all of them count)
            ends = [t for i in DA for _r, t in DA[i]] + \
                   [t for i in DB for _r, t in DB[i]]
            if ra[0] == 'GET' and ra[2] != rb[2] and any(
                    ra[3] < te and max(x for x in (ra[5], rb[5], te)
                                       if x is not None) >= te - 4 * TICK
                    for te in ends):
                pr['read_pending_at_end'] = pr.get('read_pending_at_end',
                                                   0) + 1
                continue
            if ra[2] != rb[2] and not _near_end(ra[3], da, db, causes) and \
                    not any(_between_ends(ra[3], DA[i], DB.get(i, []))
                            for i in DA) and not stuck:
                v.append(V('same-admission', 'diff|admission|%s|%s-vs-%s' % (
                    ra[0], ra[2], rb[2]),
                    'client %d: %s %r issued at t=%.4f: threaded answered '
                    '%s, asyncio %s' % (idx, ra[0], ra[1], ra[3], ra[2],
                                        rb[2])))
    # ---- quiescent snapshots ----------------------------------------------------------
    for (ta, rowa), (tb, rowb) in zip(na, nb):
        pr['compared_snapshots'] = pr.get('compared_snapshots', 0) + 1
        for idx in rowa:
            if rowa[idx] == rowb.get(idx) or idx in contended or \
                    idx in lapsed:
                continue
            a = sa.get(idx, {})
            b = sb.get(idx, {})
            causes = [cz for sid in a.get('causes', {})
                      for cz in a['causes'][sid]]
            bcauses = [cz for sid in b.get('causes', {})
                       for cz in b['causes'][sid]]
            if any(cz[0] == 'poll_timeout' for cz in causes + bcauses) and \
                    any(r[0] == 'GET' and a.get('sid') and
                        ('sid=%s' % a['sid']) in (r[4] or '')
                        for r in a.get('raws', [])):
                # (a reader starved by the session's other pending reads:
                # see the disconnect comparison)
                pr['starved_reader'] = 1
                continue
            if _near_end(ta, [], [], causes, window=I + 3 * T + 1) or stuck:
                continue
            v.append(V('same-state', 'diff|snapshot|%s-vs-%s' % (
                rowa[idx], rowb.get(idx)),
                'at t=%.4f client %d is %r on threaded and %r on asyncio' % (
                    ta, idx, rowa[idx], rowb.get(idx))))
            break
    for h in (ha, hb):
        for c in h.clients:
            if any(u.get('ok') for u in c.upgrades):
                pr['upgrades'] = 1
    nt = any(len(x['events']) > 1 for x in sa.values())
    o = oracles.outcome(ha, v, pr, nt)
    o['digest'] = ha.digest + hb.digest
    o['sim_s'] = ha.final['now'] + hb.final['now']
    o['sched'] = []
    o['leaked'] = ha.leaked + hb.leaked
    return o


def _k1_present(h):
    """A close(wait=True) that hangs (finding K1) makes the two executions
    incomparable from that point on."""
    for a in h.world.api_calls:
        if a['seq_start'] is not None and a['seq_end'] is None:
            return True
    for r in h.world.requests:
        if r.kind == 'http' and r.method == 'POST' and \
                r.seq_arrive is not None and r.seq_done is None:
            return True
    return False


def _ended_differently(a, b, T):
    """Sessions that ended by silence may end at different moments (within
    the heartbeat bound); what they processed in between may differ."""
    ta = [t for ev, arg, sid, t in a['events'] if ev == 'disconnect']
    tb = [t for ev, arg, sid, t in b['events'] if ev == 'disconnect']
    if len(ta) != len(tb):
        return True
    return any(abs(x - y) > 4 * TICK for x, y in zip(ta, tb))


def _between_ends(t, da, db, window=0.1):
    """The two servers noticed the end of the session at different moments
    (silence is detected by different mechanisms, each within the heartbeat
    bound that C07 checks per server): a request issued in between meets a
    live session on one side and a dead one on the other."""
    ta = [x[1] for x in da]
    tb = [x[1] for x in db]
    if not ta and not tb:
        return False
    lo = min(ta + tb)
    hi = max(ta + tb) if (ta and tb) else float('inf')
    return lo - window <= t <= hi + window


def _near_end(t, da, db, causes, window=0.1):
    ts = [x[1] for x in da + db] + [cz[1] for cz in causes]
    return any(abs(t - x) <= window for x in ts)


LEVEL_TEXT = ('Differential simulation: the same seeded history is replayed '
              'step by step against the threaded and the asyncio server '
              'under one virtual clock with fixed network latency; '
              'application events, client-visible messages with their '
              'transport, admission decisions and liveness/transport at '
              'every snapshot must agree (silence-caused ends only within '
              'the heartbeat bound). Sampling of histories, not proof.')
LEVEL_NOTE = ('Trusted: the two gateway actors are equivalent with respect '
              'to what they feed the servers; the cause model used to decide '
              'which differences the statement leaves open. Executions '
              'containing a hung close(wait=True) (finding K1) are not '
              'compared beyond that point.')

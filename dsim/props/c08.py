"""C08  Client connection lifecycle: one connect, one disconnect, clean
reusable state."""
from .. import coracles
from ..cscenario import run_client_scenario, gen_client_plan
from ._ccommon import *  # noqa

ID = 'C08'
SIZES = {'quick': 4000, 'thorough': 120000}
RULE = ('seeded plans for Client and AsyncClient against a scripted server: '
        'refuse, 4xx/5xx with and without JSON, garbage, empty body, non-OPEN '
        'first packet, undecodable bytes, silence; valid OPEN then CLOSE / '
        'silence / dropped connection / failed POST / failed upgrade; '
        'application disconnect() at drawn points incl. from inside connect, '
        'message and disconnect handlers; send()/disconnect() while '
        'disconnected; 1-3 connect/disconnect cycles on one object; '
        'transports polling / websocket / upgrade. Non-trivial: a connect() '
        'failed or an established connection ended.')
REQUIRED_PROBES = {'quick': ['connect_failed', 'connection_ended',
                             'reconnected', 'handler_disconnect'],
                   'thorough': ['connect_failed', 'connection_ended',
                                'reconnected', 'handler_disconnect']}
PROFILE = {'p_open_fail': 0.4, 'cycles': [1, 2, 2, 3],
           'p_handler_action': 0.35, 'p_server_end': 0.5,
           'p_client_disconnect': 0.6, 'client_sends': (0, 3),
           'server_msgs': (0, 3), 'span': 4.0}


def gen(rng, tier, i):
    return gen_client_plan(rng, PROFILE)


from .. import gen as _gen  # noqa
gen = _gen.with_lines(gen, ['_leave_connected_state', 'disconnect', '_reset', '_write_loop', '_read_loop_polling', '_read_loop_websocket', 'connect', '_connect_websocket'])
_gen_general = gen


def gen_reconnect_after_server_close(rng, tier, i):
    """The server ends the session with a CLOSE packet and is slow to finish
    closing its side of the socket; the application reacts the way
    applications do - disconnect(), then connect() again - while the
    client's own teardown may still be under way."""
    plan = gen_client_plan(rng, dict(
        PROFILE, cycles=[2], p_open_fail=0.0, p_server_end=1.0,
        server_ends=['close'], p_client_disconnect=0.0,
        p_handler_action=0.0, p_noise=0.0))
    ops = plan['client']['ops']
    conns = [o for o in ops if o['op'] == 'connect']
    tl = [x for x in plan['sserver']['timeline'] if x.get('do') == 'close']
    if len(conns) < 2 or not tl:
        return plan
    t0 = conns[0]['t']
    tc = t0 + tl[0]['t']
    d1 = rng.choice([0.05, 0.25, 1.0, 2.0, 4.0, 9.0])
    d2 = rng.choice([0.05, 0.25, 0.5, 1.0])
    keep = [o for o in ops if o['t'] < tc and o is not conns[1]]
    conns[1]['t'] = tc + d1 + d2
    keep += [{'t': tc + d1, 'op': 'disconnect'}, conns[1]]
    # a little traffic on the new connection, so that a dead one shows
    for k in range(rng.randint(1, 3)):
        keep.append({'t': conns[1]['t'] + 0.5 + 0.25 * k, 'op': 'send',
                     'data': {'k': 's', 'v': 'again-%d' % k}})
    keep.sort(key=lambda o: o['t'])
    plan['client']['ops'] = keep
    plan['client']['slow_ws_write'] = rng.choice([1, 2, 4])
    plan['horizon'] = max(plan['horizon'], conns[1]['t'] + 25.0)
    return plan


def gen(rng, tier, i):
    if rng.random() < 0.06:
        return gen_reconnect_after_server_close(rng, tier, i)
    return _gen_general(rng, tier, i)


gen.lines = True

def run(plan, sched_values=None, sched_seed=0):
    h = run_client_scenario(plan, sched_values, sched_seed)
    f = coracles.CFacts(h)
    v = coracles.check_lifecycle(h, f)
    pr = {}
    ok = 0
    for c in f.conns:
        if c['op']['exc']:
            pr['connect_failed'] = pr.get('connect_failed', 0) + 1
        if c['sess'] is not None:
            ok += 1
            if any(e['ev'] == 'disconnect' for e in c['events']):
                pr['connection_ended'] = pr.get('connection_ended', 0) + 1
    if ok > 1:
        pr['reconnected'] = 1
    if h.ss.faults.get('handler_disconnect'):
        pr['handler_disconnect'] = 1
    nt = bool(pr.get('connect_failed') or pr.get('connection_ended'))
    return _outcome(h, v, pr, nt)


def _outcome(h, v, pr, nt):
    return {'violations': v, 'probes': pr, 'faults': dict(h.ss.faults, **h.k.line_faults()),
            'sim_s': h.final['now'], 'digest': h.digest,
            'sched_digest': h.sched_digest,
            'states': ['%s:%s:%s' % (h.cw.kind, e['ev'], e['state'])
                       for e in h.cw.app.events][:50],
            'nontrivial': nt, 'sched': h.tape.recorded(),
            'summary': {'kind': h.cw.kind,
                        'events': [(e['ev'], str(e['arg'])[:20])
                                   for e in h.cw.app.events][:12],
                        'final': h.final['state']},
            'leaked': h.leaked, 'extra': {}}


LEVEL_TEXT = ('Seeded search over server behaviours at every step, '
              'application calls (incl. re-entrant ones from handlers), '
              'network faults and schedules, against the real Client and '
              'AsyncClient; each connect() must raise ConnectionError with '
              'clean reusable state or establish exactly one connection that '
              'adopts the OPEN values; each connection gets exactly one '
              'disconnect whose reason tells who ended it; afterwards state, '
              'sid, background tasks, wait() and connected_clients are '
              'clean. Sampling, not proof.')

"""C06  WebSocket upgrade completes only via the probe handshake; failure is
harmless."""
from .. import gen as _gen
from .. import oracles
from ..kernel import TICK
from ..scenario import run_server_scenario
from ._common import *  # noqa

ID = 'C06'
SIZES = {'quick': 5000, 'thorough': 150000}
RULE = ('seeded plans: every frame sequence a client can send on the upgrade '
        'socket (correct; wrong type; wrong payload; oversize; empty; '
        'undecodable; binary; nothing), socket closed or dropped before the '
        'probe / between probe and UPGRADE / after, concurrent polls and '
        'application sends, second attempts after failure and after success,'
        ' direct WebSocket opens, upgrades smuggled with transport=polling, '
        'transports / allow_upgrades / max_http_buffer_size drawn per run. '
        'Non-trivial: at least one upgrade socket reached the server.')
REQUIRED_PROBES = {'quick': ['upgrade_ok', 'upgrade_failed',
                             'retry_after_failure'],
                   'thorough': ['upgrade_ok', 'upgrade_failed',
                                'retry_after_failure', 'second_after_ok',
                                'smuggled']}
PROFILE = _gen.profile(p_upgrade=0.95, p_sabotage=0.6, p_second_upgrade=0.6,
                       sends=(0, 6), client_msgs=(0, 2), p_end=0.15,
                       p_app_disconnect=0.03, p_disconnect_all=0.0,
                       p_reject=0.03, p_handler_fault=0.0, p_ws_open=0.15,
                       p_pong_misbehave=0.0, undecodable_frames=True,
                       p_ws_fault=0.05)


CONNECTION = ['keep-alive, Upgrade', 'Upgrade, keep-alive', 'upgrade',
              'keep-alive,upgrade', 'UPGRADE', 'Keep-Alive , Upgrade']


def gen(rng, tier, i):
    plan = _gen.gen_server_plan(rng, PROFILE)
    cfg = plan['config']
    r = rng.random()
    if r < 0.12:
        cfg['transports'] = ['polling']
    elif r < 0.2:
        cfg['transports'] = ['websocket']
        for s in plan['sessions']:
            if rng.random() < 0.7:
                s['open'] = 'websocket'
    if rng.random() < 0.1:
        cfg['allow_upgrades'] = False
    small = rng.random() < 0.25
    if small:
        cfg['max_http_buffer_size'] = rng.choice([200, 300, 1000])
    for s in plan['sessions']:
        for u in s.get('upgrades', []):
            if small and rng.random() < 0.4:
                big = '4' + 'x' * (cfg['max_http_buffer_size'] + rng.choice(
                    [0, 1, 50]))
                u['steps'] = rng.choice([
                    [['send', big], ['delay', 4]],
                    [['send', '2probe'], ['wait_frame'], ['send', big],
                     ['delay', 4]]])
            if rng.random() < 0.12:
                u['query'] = 'transport=polling&EIO=4&c={c}&sid={sid}'
                u.pop('steps', None)
            if rng.random() < 0.3:
                # the same upgrade request as browsers and proxies spell it
                u['headers'] = [['Connection', rng.choice(CONNECTION)]]
                if rng.random() < 0.3:
                    u['headers'].append(['Upgrade', rng.choice(
                        ['WebSocket', 'WEBSOCKET', 'websocket'])])
    return plan


gen = _gen.with_lines(gen, ['websocket_wait', 'websocket_wait', '_websocket_handler', '_upgrade_websocket', 'handle_get_request', 'send', 'poll', 'writer', 'close'],
                      stalls=(2, 8, 32, 256, 256))
_gen_general = gen


def gen_overlapping_upgrades(rng, tier, i):
    """Threaded server: a second, correct handshake hard on the heels of a
    first one whose handler thread loses the CPU inside the handshake (stall
    run focused on the functions that run it)."""
    plan = _gen.gen_server_plan(rng, _gen.profile(
        servers=['threaded'], max_sessions=2, p_ws_open=0.0, p_upgrade=1.0,
        p_sabotage=0.0, p_second_upgrade=0.0, sends=(0, 4),
        client_msgs=(0, 2), p_end=0.2, p_app_disconnect=0.0,
        p_disconnect_all=0.0, p_handler_fault=0.0, p_reject=0.0,
        p_ws_fault=0.0, p_overlap_polls=0.0, p_pong_misbehave=0.0,
        p_late_open=0.0))
    for s in plan['sessions']:
        ups = s.get('upgrades') or []
        if ups:
            ups[0].pop('steps', None)
            s['upgrades'] = [ups[0], {'t': ups[0]['t'] + rng.choice(
                [0.01, 0.02, 0.05, 0.1])}]
    plan['line'] = {'mean': rng.choice([1, 2, 4]), 'max': 4,
                    'focus': rng.choice([['websocket_wait'],
                                         ['_websocket_handler'],
                                         ['websocket_wait',
                                          '_upgrade_websocket']]),
                    'stall': rng.choice([32, 256, 256])}
    return plan


def gen_rival_handshake(rng, tier, i):
    """Either server: while the client's own handshake is under way a second
    socket (same session id) runs one too; the frames of the two interleave
    by the latencies the tape draws."""
    plan = _gen.gen_server_plan(rng, _gen.profile(
        max_sessions=2, p_ws_open=0.0, p_upgrade=1.0, p_sabotage=0.0,
        p_second_upgrade=0.0, sends=(2, 8), client_msgs=(0, 2), p_end=0.1,
        p_app_disconnect=0.0, p_disconnect_all=0.0, p_handler_fault=0.0,
        p_reject=0.0, p_ws_fault=0.0, p_overlap_polls=0.0,
        p_pong_misbehave=0.0, p_late_open=0.0))
    for s in plan['sessions']:
        ups = s.get('upgrades') or []
        if not ups:
            continue
        ups[0].pop('steps', None)
        s['upgrades'] = ups[:1]
        s.setdefault('raw', []).append({
            't': max(0.0, ups[0]['t'] + rng.choice([-4, -1, 0, 1, 2, 4, 8])
                     * TICK),
            'method': 'GET', 'ws': True, 'sidk': 'own',
            'query': 'transport=websocket&EIO=4&c={c}&sid={sid}',
            'headers': [],
            'script': [['send', '2probe'], ['wait_frame'],
                       ['delay', rng.choice([0, 1, 2, 4, 8, 16])],
                       ['send', '5']],
            'hold': 3000})
        if rng.random() < 0.6:
            # and once the dust has settled somebody reads the session by
            # polling, or knocks with a third socket
            late = ups[0]['t'] + rng.choice([0.1, 0.25, 0.5, 1.0])
            if rng.random() < 0.7:
                s['raw'].append({
                    't': late, 'method': 'GET', 'sidk': 'own',
                    'query': 'transport=polling&EIO=4&c={c}&sid={sid}',
                    'headers': []})
            else:
                s['raw'].append({
                    't': late, 'method': 'GET', 'ws': True, 'sidk': 'own',
                    'query': 'transport=websocket&EIO=4&c={c}&sid={sid}',
                    'headers': [], 'script': [['send', '2probe'],
                                              ['wait_frame'], ['send', '5']],
                    'hold': 64})
            for _ in range(rng.randint(1, 3)):
                plan['app'].append({
                    't': late + rng.choice([-2, 0, 1, 8, 64]) * TICK,
                    'op': 'send', 'c': plan['sessions'].index(s),
                    'data': {'k': 's', 'v': 'late-%d' % len(plan['app'])}})
            plan['app'].sort(key=lambda o: o['t'])
        s['raw'].sort(key=lambda r: r['t'])
    return plan


def gen(rng, tier, i):
    r = rng.random()
    if r < 0.08:
        return gen_overlapping_upgrades(rng, tier, i)
    if r < 0.16:
        return gen_rival_handshake(rng, tier, i)
    return _gen_general(rng, tier, i)


gen.lines = True

def run(plan, sched_values=None, sched_seed=0):
    h = run_server_scenario(plan, sched_values, sched_seed)
    f = oracles.Facts(h)
    v = oracles.check_upgrade(h, f)
    pr = {}
    nontrivial = False
    for c in h.clients:
        prev_fail = prev_ok = False
        for u in c.upgrades:
            if u['conn'].req.seq_arrive is not None:
                nontrivial = True
            if u.get('ok'):
                pr['upgrade_ok'] = pr.get('upgrade_ok', 0) + 1
                if prev_fail:
                    pr['retry_after_failure_ok'] = pr.get(
                        'retry_after_failure_ok', 0) + 1
            else:
                pr['upgrade_failed'] = pr.get('upgrade_failed', 0) + 1
            if prev_fail:
                pr['retry_after_failure'] = pr.get('retry_after_failure',
                                                   0) + 1
            if prev_ok:
                pr['second_after_ok'] = pr.get('second_after_ok', 0) + 1
            if 'transport=polling' in u['conn'].req.query:
                pr['smuggled'] = pr.get('smuggled', 0) + 1
            prev_fail = prev_fail or not u.get('ok')
            prev_ok = prev_ok or bool(u.get('ok'))
    return oracles.outcome(h, v, pr, nontrivial)


LEVEL_TEXT = ('Seeded search over handshake frame sequences, closure points, '
              'concurrent polls/sends and transport settings against the '
              'real servers; every observation of a session\'s transport is '
              'checked against the server-side frame stamps of its upgrade '
              'sockets (2probe, 3probe, 5 in order), failed handshakes are '
              'checked to leave polling usable (no NOOP-forever, later '
              'upgrade accepted), completed upgrades to refuse further ones, '
              'and forbidden transports to carry nothing. Sampling, not '
              'proof.')

"""C14  Inbound size and volume limits are exact and nothing oversize reaches
the app."""
from .. import gen as _gen
from .. import oracles
from ..scenario import run_server_scenario
from ._common import *  # noqa

ID = 'C14'
SIZES = {'quick': 4000, 'thorough': 120000}
RULE = ('seeded plans: max_http_buffer_size from 1 to the default, POST '
        'bodies and WebSocket frames of length limit-2 .. limit+2, 0, 1 and '
        'very large, text and binary, declared Content-Length smaller / '
        'equal / larger than the body, 0 .. limit+2 packets per body with '
        'the per-payload packet limit drawn from {1,2,16,17,50}, on polling, '
        'WebSocket (steady state) and mid-upgrade (probe / UPGRADE position);'
        ' the WSGI body reader records every read(). Non-trivial: at least '
        'one body or frame within 2 of a limit reached the server.')
REQUIRED_PROBES = {'quick': ['post_at_limit', 'post_over_limit',
                             'frame_over_limit', 'packets_over_limit'],
                   'thorough': ['post_at_limit', 'post_over_limit',
                                'frame_over_limit', 'frame_at_limit',
                                'packets_over_limit']}


def body_of(n, tag, binary=False):
    """A one-packet body of exactly n characters (n >= 1)."""
    if n <= 0:
        return ''
    head = '4' + tag
    if n <= len(head):
        return head[:n]
    return head + 'a' * (n - len(head))


def gen(rng, tier, i):
    limit = rng.choice([1, 5, 16, 64, 100, 200, 1000, 1000000])
    plimit = rng.choice([1, 2, 16, 16, 17, 50])
    prof = _gen.profile(max_sessions=2, p_upgrade=0.45, p_sabotage=0.0,
                        p_second_upgrade=0.0, sends=(0, 2),
                        client_msgs=(0, 1), p_end=0.05,
                        p_app_disconnect=0.0, p_disconnect_all=0.0,
                        p_handler_fault=0.0, p_reject=0.0, p_ws_fault=0.0,
                        p_overlap_polls=0.0, p_pong_misbehave=0.0, span=4.0,
                        p_ws_open=0.35, I=[2.0, 4.0], T=[1.0, 2.0],
                        payload_kinds=('s',))
    plan = _gen.gen_server_plan(rng, prof)
    plan['config']['max_http_buffer_size'] = limit
    plan['app_opts']['max_decode_packets'] = plimit
    n = 0
    for s in plan['sessions']:
        posts, frames = [], []
        for _ in range(rng.randint(1, 4)):
            n += 1
            t = _gen.ticks(rng, 0.1, 3.5)
            L = rng.choice([limit - 2, limit - 1, limit, limit, limit + 1,
                            limit + 2, 0, 1, min(limit * 3 + 7, 3000000)])
            L = max(0, L)
            kind = rng.random()
            tag = 'z%d:' % n
            if kind < 0.5:
                body = body_of(L, tag)
                p = {'t': t, 'body': body}
                r = rng.random()
                if r < 0.15:
                    p['declared'] = max(0, len(body) - rng.randint(1, 3))
                elif r < 0.3:
                    p['declared'] = len(body) + rng.randint(1, 3)
                elif r < 0.35:
                    p['declared'] = 10 ** 9
                posts.append(p)
            elif kind < 0.75:
                k = rng.choice([plimit - 1, plimit, plimit, plimit + 1,
                                plimit + 2, 0, 1])
                k = max(0, k)
                body = '\x1e'.join('4q%d.%d' % (n, j) for j in range(k))
                if rng.random() < 0.4:
                    import urllib.parse as _up
                    body = 'd=' + _up.quote(body)     # JSONP form post
                posts.append({'t': t, 'body': body})
            else:
                if L == 0:
                    L = 1
                if rng.random() < 0.3:
                    frames.append({'t': t, 'data': {
                        'hex': (n.to_bytes(4, 'big') + b'\x00' * max(
                            0, L - 4))[:max(L, 1)].hex()}})
                else:
                    frames.append({'t': t, 'data': body_of(L, tag)})
        s['posts'] = sorted(posts, key=lambda x: x['t'])
        s['frames'] = sorted(frames, key=lambda x: x['t'])
        for u in s.get('upgrades', []):
            if rng.random() < 0.4:
                big = body_of(limit + rng.choice([0, 1, 2]), 'h%d:' % n)
                u['steps'] = rng.choice([
                    [['send', big], ['delay', 4]],
                    [['send', '2probe'], ['wait_frame'], ['send', big],
                     ['delay', 4]]])
    plan['horizon'] = max(plan['horizon'], 10.0)
    return plan


def run(plan, sched_values=None, sched_seed=0):
    h = run_server_scenario(plan, sched_values, sched_seed)
    f = oracles.Facts(h)
    v = oracles.check_limits(h, f)
    v += [x for x in oracles.check_dispatch(h, f)
          if x['clause'] in ('dispatch-exactly-once', 'dispatch-spurious')]
    limit = plan['config']['max_http_buffer_size']
    pl = plan['app_opts']['max_decode_packets']
    pr = {}
    for c in h.clients:
        for r in c.posts:
            if r.tag != 'rawpost' or r.seq_arrive is None:
                continue
            d = len(r.body) if r.declared is None else int(r.declared)
            if d == limit:
                pr['post_at_limit'] = pr.get('post_at_limit', 0) + 1
            elif d > limit:
                pr['post_over_limit'] = pr.get('post_over_limit', 0) + 1
            if r.body.count(b'\x1e') + r.body.count(b'%1E') + 1 > pl:
                pr['packets_over_limit'] = pr.get('packets_over_limit',
                                                  0) + 1
        for conn in h.world.wsconns:
            for (_s, _t, d) in conn.recv_s:
                if len(d) > limit:
                    pr['frame_over_limit'] = pr.get('frame_over_limit',
                                                    0) + 1
                elif len(d) == limit:
                    pr['frame_at_limit'] = pr.get('frame_at_limit', 0) + 1
    nt = any(k in pr for k in ('post_at_limit', 'post_over_limit',
                               'frame_over_limit', 'frame_at_limit',
                               'packets_over_limit'))
    return oracles.outcome(h, v, pr, nt)


LEVEL_TEXT = ('Seeded generation of bodies and frames in a window around '
              'every drawn limit (length and packet count), arriving as '
              'traffic of live simulated sessions on polling, WebSocket and '
              'mid-upgrade on both servers; checked: nothing from an '
              'oversize POST or frame reaches a handler, WSGI reads never '
              'exceed min(declared, limit), exactly-limit is accepted, '
              'oversize POST gets 400 and ends the session, oversize frame '
              'ends the session, over-limit packet counts deliver nothing. '
              'Input / configuration generation inside simulated '
              'conversations; sampling, not proof.')

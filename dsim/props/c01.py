"""C01  Packet encoding is the Engine.IO v4 wire form and decoding inverts
it."""
import json

from .. import gen as _gen
from .. import oracles
from .. import refmodel as R
from ..oracles import V
from ..scenario import run_server_scenario
from ._common import *  # noqa

ID = 'C01'
SIZES = {'quick': 3000, 'thorough': 100000}
RULE = ('each run = (a) a conversation in which the application broadcasts '
        'shared Packet objects (send_packet) to 2-4 sessions on mixed '
        'transports (polling, WebSocket, mid-upgrade) under tape-drawn '
        'schedules, every client decoding what its own channel delivered; '
        'plus (b) 40 directly generated cases: all 7 types x payloads '
        '(Unicode text with control characters, JSON look-alikes, digit '
        'strings, >100-digit integers, leading b, bytes / bytearray incl. '
        'empty, nested JSON, None) x encode-call sequences of length <= 8 '
        'over both channel kinds on one packet object, checked against a '
        'reference codec. Non-trivial: a shared binary packet reached both '
        'a polling and a WebSocket session, or a call sequence mixed both '
        'channel kinds.')
REQUIRED_PROBES = {'quick': ['shared_binary_mixed', 'seq_mixed_flags',
                             'lookalike', 'binary_nonmessage'],
                   'thorough': ['shared_binary_mixed', 'seq_mixed_flags',
                                'lookalike', 'binary_nonmessage']}

TEXTS = ['', 'x', 'hello world', '"x"', '[1]', '{"a":1}', 'null', 'true',
         'false', '1.5', '1e5', '-0', '12', '007', '1' * 101, '[' + '1' * 101
         + ']', 'NaN', 'Infinity', 'b', 'bAAAA', 'b64', '4', ' 1', '1 ',
         '\x00', '\x1e', '\x1f\x7f', 'é中😀', '퟿', ' ', '{"a":',
         '"unterminated', '[1,2', '{"k":[1,{"z":null}]}', '1.0', '1E400',
         '-1e-400', '"\\u0041"', ' {"a":1} ', '\n[1]\n', '0x10', '+1']


def gen_value(rng, depth=0):
    r = rng.random()
    if r < 0.45:
        t = rng.choice(TEXTS)
        if rng.random() < 0.3:
            t += rng.choice(TEXTS)
        return {'k': 's', 'v': t}
    if r < 0.65:
        data = bytes(rng.getrandbits(8) for _ in range(rng.choice(
            [0, 1, 2, 3, 4, 15, 16, 17, 100, 2048])))
        return {'k': rng.choice(['b', 'b', 'ba']), 'v': data.hex()}
    if r < 0.9:
        return {'k': 'j', 'v': gen_json(rng, depth)}
    return {'k': 'n'}


def gen_json(rng, depth=0):
    r = rng.random()
    if depth > 5 or r < 0.3:
        return rng.choice([{}, [], {'a': 1}, [1, 2.5, None, True],
                           {'s': 'é"\\\n'}, [[]], {'n': None}])
    if r < 0.65:
        return {rng.choice(['a', 'b', 'é', '']): gen_json(rng, depth + 1)
                for _ in range(rng.randint(0, 3))}
    return [gen_json(rng, depth + 1) for _ in range(rng.randint(0, 3))]


def gen(rng, tier, i):
    prof = _gen.profile(max_sessions=4, p_upgrade=0.5, p_sabotage=0.1,
                        p_second_upgrade=0.0, sends=(0, 1),
                        client_msgs=(0, 1), p_end=0.05,
                        p_app_disconnect=0.0, p_disconnect_all=0.0,
                        p_handler_fault=0.0, p_reject=0.0, p_ws_fault=0.0,
                        p_overlap_polls=0.0, p_pong_misbehave=0.0, span=3.0,
                        p_ws_open=0.45)
    plan = _gen.gen_server_plan(rng, prof)
    n = len(plan['sessions'])
    k = 0
    for _ in range(rng.randint(1, 4)):
        k += 1
        kind = rng.choice(['b', 'b', 's', 'j'])
        if kind == 'b':
            data = {'k': 'b', 'v': (k.to_bytes(2, 'big') + bytes(
                rng.getrandbits(8) for _ in range(rng.randint(0, 9)))).hex()}
        elif kind == 's':
            data = {'k': 's', 'v': 'sh%d:%s' % (k, rng.choice(
                [t for t in TEXTS if '\x1e' not in t]))}
        else:
            data = {'k': 'j', 'v': {'sh': k, 'v': gen_json(rng)}}
        plan['app'].append({'t': _gen.ticks(rng, 1.2, 3.0),
                            'op': 'send_shared',
                            'cs': list(range(n)), 'data': data})
    plan['app'].sort(key=lambda o: o['t'])
    cases = []
    for _ in range(40):
        cases.append({'ptype': rng.choice([0, 1, 2, 3, 4, 4, 4, 4, 5, 6]),
                      'val': gen_value(rng),
                      'calls': [rng.random() < 0.5
                                for _ in range(rng.randint(1, 8))]})
    plan['direct'] = cases
    return plan


def check_direct(cases):
    """Real engineio.packet.Packet against the reference codec."""
    from engineio import packet as P
    out = []
    pr = {}
    for case in cases:
        ptype = case['ptype']
        val = R.spec_to_value(case['val'])
        binary = isinstance(val, (bytes, bytearray))
        try:
            pkt = P.Packet(ptype, data=val)
        except ValueError:
            if not (binary and ptype != R.MESSAGE):
                out.append(V('constructor', 'codec|constructor-refused',
                             'Packet(%d, %r) raised ValueError' % (
                                 ptype, oracles._short(val))))
            else:
                pr['binary_nonmessage'] = pr.get('binary_nonmessage', 0) + 1
            continue
        if binary and ptype != R.MESSAGE:
            out.append(V('binary-only-message',
                         'codec|binary-accepted-for-type-%d' % ptype,
                         'Packet(%d, <bytes>) was accepted' % ptype))
            continue
        if len(set(case['calls'])) > 1:
            pr['seq_mixed_flags'] = pr.get('seq_mixed_flags', 0) + 1
        encs = {}
        for n, b64 in enumerate(case['calls']):
            try:
                got = pkt.encode(b64=b64)
            except Exception as e:  # noqa
                out.append(V('encode', 'codec|encode-raised|%s' %
                             type(e).__name__, 'encode(b64=%s) of %r '
                             'raised %r' % (b64, oracles._short(val), e)))
                break
            exp = R.ref_encode(ptype, val, b64)
            encs[b64] = exp
            if isinstance(got, bytearray) and isinstance(exp, bytes):
                got = bytes(got)        # raw bytes either way
            if got != exp or type(got) is not type(exp):
                sig = 'codec|encode-mismatch'
                if n > 0 and got == R.ref_encode(ptype, val, not b64):
                    sig = 'codec|encode-returns-other-channel-form'
                out.append(V('encode', sig,
                             'Packet(%d, %r): call %d encode(b64=%s) after '
                             '%r returned %r, reference %r' % (
                                 ptype, oracles._short(val), n, b64,
                                 case['calls'][:n], oracles._short(got),
                                 oracles._short(exp))))
                break
        else:
            for b64, enc in encs.items():
                try:
                    dp = P.Packet(encoded_packet=enc)
                except Exception as e:  # noqa
                    out.append(V('decode', 'codec|decode-raised|%s' %
                                 type(e).__name__,
                                 'decode of %r raised %r' % (
                                     oracles._short(enc), e)))
                    continue
                if binary:
                    want_t, want = R.MESSAGE, bytes(val)
                    cert = 'exact'
                else:
                    try:
                        want_t, want, cert = R.ref_decode(enc)
                    except R.RefError:
                        continue
                if cert != 'exact':
                    continue
                if isinstance(want, str) is False and not binary and \
                        isinstance(val, str):
                    pr['lookalike'] = pr.get('lookalike', 0) + 1
                if dp.packet_type != want_t or not R.same_value(dp.data,
                                                                want):
                    out.append(V('decode', 'codec|decode-mismatch|%s' % (
                        'binary' if binary else type(want).__name__),
                        'decode(%r) gave type %r data %r, reference type '
                        '%r data %r' % (oracles._short(enc), dp.packet_type,
                                        oracles._short(dp.data), want_t,
                                        oracles._short(want))))
                if dp.binary and dp.packet_type != R.MESSAGE:
                    out.append(V('binary-only-message',
                                 'codec|decoded-binary-non-message',
                                 'decode reported a binary packet of type '
                                 '%r' % dp.packet_type))
    return out, pr


def run(plan, sched_values=None, sched_seed=0):
    h = run_server_scenario(plan, sched_values, sched_seed)
    f = oracles.Facts(h)
    v, pr = check_direct(plan.get('direct', []))
    # shared packets: every client receives the payload in the
    # representation of its own channel, no request fails
    v += [x for x in oracles.check_delivery(h, f)
          if x['clause'] in ('delivery-integrity', 'complete',
                             'at-most-once')]
    for c in h.clients:
        for (kind, ref, msg) in c.decode_errors:
            v.append(V('channel-form', '%s|client-cannot-decode|%s' % (
                f.impl, kind), 'client %d could not decode what its '
                'channel delivered (%s %s): %s' % (c.idx, kind, ref, msg)))
    for req in h.world.requests:
        if req.escaped and req.kind == 'http':
            v.append(V('no-request-fails', '%s|request-failed|%s' % (
                f.impl, req.escaped.split(':')[0]),
                '%s %r failed: %s' % (req.method, req.query, req.escaped)))
    for a in h.world.api_calls:
        if a.get('shared') and a.get('exc'):
            v.append(V('no-request-fails', '%s|send-packet-raised|%s' % (
                f.impl, a['exc'].split(':')[0]),
                'send_packet of a shared packet raised %s' % a['exc']))
    chans = {}
    for rec in h.app_sends:
        if rec.get('shared') and isinstance(rec['val'], bytes):
            b = rec.get('before')
            if b:
                chans.setdefault(id(rec['tag']), set()).add(
                    'ws' if b['upgraded'] else 'poll')
    if any(len(x) == 2 for x in chans.values()):
        pr['shared_binary_mixed'] = 1
    nt = bool(pr.get('shared_binary_mixed') or pr.get('seq_mixed_flags'))
    return oracles.outcome(h, v, pr, nt)


LEVEL_TEXT = ('The encode-call-history clause is decided in simulation: one '
              'shared Packet broadcast to sessions on different transports '
              'under seeded schedules, each scripted client decoding its own '
              'channel. The input clauses (all types x payload classes x '
              'call sequences) are seeded input generation against a '
              'reference codec in the same runs, not schedule exploration. '
              'Sampling, not proof.')

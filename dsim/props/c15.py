"""C15  Every request and API call completes with a well-formed gateway
response."""
from .. import gen as _gen
from .. import oracles
from ..scenario import run_server_scenario
from ._common import *  # noqa

ID = 'C15'
SIZES = {'quick': 4000, 'thorough': 120000}
RULE = ('seeded plans: the admission cross product plus malformed bodies '
        '(bad digits, bad base64, empty, separators, oversize, wrong declared '
        'lengths), issued at drawn points of live histories with and without '
        'a poll pending and with the client gone; application send / '
        'disconnect(sid) / disconnect() in every session state incl. an '
        'empty table; PEP 3333 / ASGI validators on the gateways. '
        'Non-trivial: at least one request and one application call ran.')
REQUIRED_PROBES = {'quick': ['http_requests', 'api_calls'],
                   'thorough': ['http_requests', 'api_calls',
                                'closed_sid_request']}
PROFILE = _gen.profile(p_upgrade=0.4, p_sabotage=0.3, sends=(0, 4),
                       client_msgs=(0, 3), p_end=0.5,
                       p_app_disconnect=0.25,
                       allow_polling_app_disconnect=0.15,
                       p_disconnect_all=0.08, p_handler_fault=0.1,
                       handler_actions=['raise', 'send'],
                       p_reject=0.15, p_raw_bodies=0.4)


def gen(rng, tier, i):
    plan = _gen.gen_server_plan(rng, PROFILE)
    _gen.add_raw_requests(rng, plan, (0, 5), PROFILE['span'], malformed=True)
    if rng.random() < 0.15:
        # application calls on an empty table / unknown ids
        plan['app'].append({'t': 0.0, 'op': 'disconnect_all'})
        plan['app'].append({'t': 0.0, 'op': 'send', 'sid': 'nobody',
                            'data': {'k': 's', 'v': 'x'}})
        plan['app'].append({'t': 0.001, 'op': 'disconnect', 'sid': 'nobody'})
        plan['app'].sort(key=lambda o: o['t'])
    if rng.random() < 0.3:
        # content codings offered in every spelling, and responses long
        # enough to be worth compressing
        from .c19 import ACCEPT
        plan['config']['compression_threshold'] = rng.choice(
            [1024, 0, 1, 50])
        for s in plan['sessions']:
            ae = rng.choice(ACCEPT)
            if ae is not None:
                s['headers'] = [h for h in s.get('headers', [])] + [
                    ['Accept-Encoding', ae]]
    return plan


gen = _gen.with_lines(gen, ['handle_request', 'close', 'disconnect', 'send', '_websocket_handler', '_service_task'])

def run(plan, sched_values=None, sched_seed=0):
    h = run_server_scenario(plan, sched_values, sched_seed)
    f = oracles.Facts(h)
    v = oracles.check_completion(h, f)
    pr = {'http_requests': sum(1 for r in h.world.requests
                               if r.kind == 'http' and r.seq_arrive),
          'api_calls': len(h.world.api_calls)}
    for r in h.world.requests:
        if r.kind == 'http' and r.seq_arrive and 'closed' in \
                oracles._req_shape(r):
            pr['closed_sid_request'] = pr.get('closed_sid_request', 0) + 1
    return oracles.outcome(h, v, pr, pr['http_requests'] > 0)


LEVEL_TEXT = ('Seeded search over requests (admission cross product + '
              'malformed bodies) and application calls issued at drawn '
              'points of simulated histories on both servers behind '
              'validating WSGI / ASGI gateway actors; checked: exactly one '
              'well-formed response, status in {200,400,401,405}, no '
              'exception leaves the app callable, completion within the '
              'stated virtual-time bound (long-polls: ping_interval + '
              'ping_timeout), no worker or application call parked at the '
              'horizon. Sampling, not proof.')

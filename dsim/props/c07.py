"""C07  Heartbeat: periodic PING, dead peers dropped in bounded time, live
peers never."""
from .. import gen as _gen
from .. import oracles
from ..kernel import TICK
from ..scenario import run_server_scenario
from ._common import *  # noqa

ID = 'C07'
SIZES = {'quick': 5000, 'thorough': 150000}
RULE = ('seeded plans: 1-6 sessions (polling, websocket, upgraded), '
        '(ping_interval, grace, ping_timeout) from a grid of binary fractions '
        '0.25..25 incl. equal and fractional values, monitor on/off; each '
        'PONG is aimed *relative to the server-side deadline* (well inside, '
        'deadline-1 tick, deadline, deadline+1 tick, late, never); '
        'application sends and polls at drawn phases; handlers '
        'instantaneous. Non-trivial: at least one PING was produced.')
REQUIRED_PROBES = {'quick': ['pong_at_deadline', 'pong_deadline_minus_1',
                             'pong_deadline_plus_1', 'pong_never'],
                   'thorough': ['pong_at_deadline', 'pong_deadline_minus_1',
                                'pong_deadline_plus_1', 'pong_never',
                                'silence_detected']}
GRID = [0.25, 0.5, 1.0, 2.0, 4.0, 25.0]


def gen(rng, tier, i):
    I = rng.choice(GRID)
    T = rng.choice([0.25, 0.5, 1.0, 2.0, 20.0] if I < 25 else [1.0, 20.0])
    prof = _gen.profile(I=[I], T=[T], max_sessions=rng.choice([1, 2, 3, 6]),
                        p_end=0.0, p_app_disconnect=0.0,
                        p_disconnect_all=0.0, p_handler_fault=0.0,
                        p_reject=0.0, p_ws_fault=0.0, p_sabotage=0.0,
                        p_second_upgrade=0.0, p_overlap_polls=0.0,
                        p_pong_misbehave=0.0, client_msgs=(0, 3),
                        sends=(0, 5), span=min(4 * (I + T), 60.0),
                        p_stop_polling=0.0, p_no_monitor=0.2)
    plan = _gen.gen_server_plan(rng, prof)
    if rng.random() < 0.3:
        G = rng.choice([0.25, 1.0, 5.0])
        plan['config']['ping_interval'] = [I, G]
    span = prof['span']
    for s in plan['sessions']:
        rules = {}
        n_pings = int(span / I) + 2
        dead = rng.random() < 0.35
        k_dead = rng.randint(0, max(0, n_pings - 1))
        for n in range(n_pings + 4):
            r = rng.random()
            if dead and n >= k_dead:
                rules[str(n)] = {'mode': 'never'}
            elif r < 0.35:
                rules[str(n)] = {'mode': 'prompt',
                                 'delay': rng.choice([1, 2, 8, 64])}
            elif r < 0.55:
                rules[str(n)] = {'mode': 'deadline', 'offset': -1}
            elif r < 0.7:
                rules[str(n)] = {'mode': 'deadline', 'offset': 0}
            elif r < 0.8:
                rules[str(n)] = {'mode': 'deadline', 'offset': 1}
            elif r < 0.9:
                rules[str(n)] = {'mode': 'deadline',
                                 'offset': -rng.randint(2, 200)}
            elif r < 0.95:
                rules[str(n)] = {'mode': 'deadline',
                                 'offset': rng.randint(2, 400)}
            else:
                rules[str(n)] = {'mode': 'never'}
        s['pong'] = {'default': {'mode': 'prompt', 'delay': 1},
                     'rules': rules}
    plan['horizon'] = max(plan['horizon'], span + I + 4 * T + 2.0)
    return plan


gen = _gen.with_lines(gen, ['_send_ping', '_send_ping', 'check_ping_timeout',
                            'receive', 'schedule_ping', '_service_task'],
                      p=0.3, cluster=0.0, stall=0.6,
                      stalls=(2, 8, 8, 32))
_gen_general = gen


def gen_ping_thread_stalled(rng, tier, i):
    """Threaded server, healthy peers that answer every PING at once, and a
    ping thread that loses the CPU for a whole PING/PONG round trip inside
    _send_ping (stall run).  Whatever the thread does around that gap, no
    peer may be dropped."""
    I = rng.choice([1.0, 1.5, 2.0, 4.0])
    T = rng.choice([0.25, 0.5, 1.0])
    prof = _gen.profile(servers=['threaded'], I=[I], T=[T],
                        max_sessions=rng.choice([1, 2]), p_end=0.0,
                        p_app_disconnect=0.0, p_disconnect_all=0.0,
                        p_handler_fault=0.0, p_reject=0.0, p_ws_fault=0.0,
                        p_sabotage=0.0, p_second_upgrade=0.0,
                        p_overlap_polls=0.0, p_pong_misbehave=0.0,
                        client_msgs=(0, 2), sends=(0, 4),
                        span=min(4 * (I + T), 20.0), p_stop_polling=0.0,
                        p_no_monitor=0.2, p_late_open=0.0)
    plan = _gen.gen_server_plan(rng, prof)
    for s in plan['sessions']:
        s['pong'] = {'default': {'mode': 'prompt', 'delay': 1}}
        s['poll'] = {'mode': 'auto', 'gap': 1}
        s.pop('end', None)
    plan['line'] = {'mean': rng.choice([1, 2, 4]), 'max': 4,
                    'focus': ['_send_ping'], 'stall': rng.choice([8, 32])}
    return plan


def gen(rng, tier, i):
    if rng.random() < 0.06:
        return gen_ping_thread_stalled(rng, tier, i)
    return _gen_general(rng, tier, i)


gen.lines = True

def run(plan, sched_values=None, sched_seed=0):
    h = run_server_scenario(plan, sched_values, sched_seed)
    f = oracles.Facts(h)
    v = oracles.check_heartbeat(h, f)
    v += [x for x in oracles.check_session_events(h, f)
          if x['clause'] in ('disconnect-missing', 'disconnect-cause',
                             'disconnect-reason', 'disconnect-once')]
    pr = {}
    pings = 0
    T = f.T
    for sid, s in f.sess.items():
        q = h.world.qlog.get(sid, [])
        stamps = [t for (_, t, pt, _d) in q if pt == 2]
        pings += len(stamps)
        pongs = f.pong_arrivals(sid)
        for tp in stamps:
            for ta in pongs:
                d = round((ta - (tp + T)) / TICK)
                if abs((ta - (tp + T)) - d * TICK) < 1e-6:
                    if d == 0:
                        pr['pong_at_deadline'] = pr.get(
                            'pong_at_deadline', 0) + 1
                    elif d == -1:
                        pr['pong_deadline_minus_1'] = pr.get(
                            'pong_deadline_minus_1', 0) + 1
                    elif d == 1:
                        pr['pong_deadline_plus_1'] = pr.get(
                            'pong_deadline_plus_1', 0) + 1
        for cz in f.causes(sid):
            if cz['kind'] == 'silence' and cz.get('resumed') is None:
                pr['pong_never'] = pr.get('pong_never', 0) + 1
                if s['disconnect']:
                    pr['silence_detected'] = pr.get('silence_detected',
                                                    0) + 1
                break
    return oracles.outcome(h, v, pr, pings > 0)


LEVEL_TEXT = ('Seeded search over PONG arrival times aimed at the server-side '
              'deadline (exact to the tick, virtual clock), monitor sweep '
              'phases, send and poll timings and heartbeat settings on both '
              'servers; checked: every PING is produced exactly '
              'ping_interval after OPEN / a PONG, peers whose PONGs arrive '
              'by the deadline are never dropped, silent peers are dropped '
              'with a heartbeat reason within ping_interval + 3 x '
              'ping_timeout of their last PONG (monitor on) or at the next '
              'send (monitor off), no poll is held longer than '
              'ping_interval + ping_timeout. Sampling, not proof.')

"""C09  Client protocol conduct: PONG echo, ordered exactly-once I/O, probe
upgrade."""
from .. import coracles
from ..cscenario import run_client_scenario, gen_client_plan
from ._ccommon import *  # noqa
from .c08 import _outcome

ID = 'C09'
SIZES = {'quick': 4000, 'thorough': 120000}
RULE = ('seeded plans for Client and AsyncClient against a scripted server: '
        'message bursts (<= 16 per body), PINGs with arbitrary data, NOOPs, '
        'unknown packet types, application send sequences of all payload '
        'kinds, URLs over scheme {http,https,ws,wss} x host[:port] x path x '
        'query x engineio_path, probe answered right / wrong / never / '
        'refused / closed, silence beginning at drawn points. Non-trivial: '
        'at least one PING was answered or one message crossed.')
REQUIRED_PROBES = {'quick': ['pong', 'server_msg', 'client_msg',
                             'upgrade_ok', 'upgrade_failed', 'silence'],
                   'thorough': ['pong', 'server_msg', 'client_msg',
                                'upgrade_ok', 'upgrade_failed', 'silence',
                                'binary_on_ws']}
PROFILE = {'p_open_fail': 0.05, 'cycles': [1], 'p_handler_action': 0.05,
           'p_server_end': 0.3, 'server_ends': ['silence', 'silence',
                                                'close', 'drop_ws'],
           'p_client_disconnect': 0.2, 'client_sends': (0, 10),
           'server_msgs': (0, 8), 'span': 6.0, 'p_noise': 0.4}


def gen(rng, tier, i):
    return gen_client_plan(rng, PROFILE)


from .. import gen as _gen  # noqa
gen = _gen.with_lines(gen, ['_write_loop', '_send_packet', 'send', '_receive_packet', '_connect_websocket', '_read_loop_polling'])

def run(plan, sched_values=None, sched_seed=0):
    h = run_client_scenario(plan, sched_values, sched_seed)
    f = coracles.CFacts(h)
    v = coracles.check_conduct(h, f)
    pr = {}
    for s in h.ss.sessions.values():
        if s.pongs_in:
            pr['pong'] = pr.get('pong', 0) + len(s.pongs_in)
        if any(x[3] == 4 for x in s.sent):
            pr['server_msg'] = pr.get('server_msg', 0) + 1
        if s.msgs_in:
            pr['client_msg'] = pr.get('client_msg', 0) + len(s.msgs_in)
        for att in s.upgrade_attempts:
            k = 'upgrade_ok' if att.get('upgraded') else 'upgrade_failed'
            pr[k] = pr.get(k, 0) + 1
        if s.t_silent is not None:
            pr['silence'] = pr.get('silence', 0) + 1
        if any(isinstance(m[3], bytes) and m[2] == 'ws' for m in s.msgs_in):
            pr['binary_on_ws'] = pr.get('binary_on_ws', 0) + 1
    nt = bool(pr.get('pong') or pr.get('server_msg') or pr.get('client_msg'))
    return _outcome(h, v, pr, nt)


LEVEL_TEXT = ('Seeded search over server scripts, application send '
              'sequences, URLs, probe outcomes and silence points against '
              'the real Client and AsyncClient; checked at the scripted '
              'server and in the client application log: one PONG per PING '
              'with equal data, server messages delivered exactly once '
              '(dispatch in arrival order), application sends exactly once '
              'and in order with binary as binary frames on WebSocket, '
              'request URLs, upgrade only through 2probe/3probe/5, silence '
              'detected within ping_interval + ping_timeout (+5 s) + '
              'request_timeout. Sampling, not proof.')

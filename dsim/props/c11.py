"""C11  OPEN handshake reflects configuration and honours the connect
handler."""
from .. import gen as _gen
from .. import oracles
from ..scenario import run_server_scenario
from ._common import *  # noqa

ID = 'C11'
SIZES = {'quick': 4000, 'thorough': 120000}
RULE = ('seeded configuration swarm per run: ping_interval (int, fraction, '
        '(interval, grace)), ping_timeout, max_http_buffer_size, '
        'allow_upgrades, transports, cookie (none / name / dict with str, '
        'True and callable attributes), connect-handler outcome (None, True, '
        'False, 0, "", text, dict, list, [], raise), polling and WebSocket '
        'opens, with and without JSONP; the OPEN packet, Set-Cookie, 401 '
        'body and the fate of rejected ids are compared with a reference '
        'function of the configuration; an advertised upgrade is attempted. '
        'Non-trivial: at least one open reached the connect handler.')
REQUIRED_PROBES = {'quick': ['accepted', 'rejected', 'cookie', 'fractional',
                             'upgrade_attempted'],
                   'thorough': ['accepted', 'rejected', 'cookie',
                                'fractional', 'upgrade_attempted', 'jsonp']}

COOKIES = [None, None, 'io', 'sess',
           {'name': 'sid', 'path': '/x', 'SameSite': 'Strict'},
           {'name': 'k', 'Secure': True, 'HttpOnly': True},
           {'name': 'k', 'path': '__callable__', 'Max-Age': '60'},
           {'path': '/', 'Secure': True}]


def gen(rng, tier, i):
    I = rng.choice([1, 2, 25, 0.5, 1.5, 0.25, 3])
    T = rng.choice([1, 2, 20, 0.5, 0.75])
    prof = _gen.profile(I=[I], T=[T], max_sessions=3, p_upgrade=0.5,
                        p_sabotage=0.0, p_second_upgrade=0.0, sends=(0, 2),
                        client_msgs=(0, 1), p_end=0.1,
                        p_app_disconnect=0.0, p_disconnect_all=0.0,
                        p_handler_fault=0.0, p_reject=0.45,
                        reject_kinds=['false', 'zero', 'empty', 'text',
                                      'dict', 'list', 'emptylist', 'raise',
                                      'true', 'one', 'onefloat', 'zerofloat',
                                      'num', 'emptydict'],
                        p_ws_fault=0.0, p_overlap_polls=0.0,
                        p_pong_misbehave=0.0, p_jsonp=0.25, span=3.0,
                        p_no_monitor=0.3)
    plan = _gen.gen_server_plan(rng, prof)
    cfg = plan['config']
    if rng.random() < 0.35:
        cfg['ping_interval'] = [I, rng.choice([0, 1, 0.5, 0.25])]
    cfg['max_http_buffer_size'] = rng.choice([1000000, 1, 100, 12345])
    if rng.random() < 0.2:
        cfg['allow_upgrades'] = False
    r = rng.random()
    if r < 0.15:
        cfg['transports'] = ['polling']
    elif r < 0.25:
        cfg['transports'] = ['websocket']
        for s in plan['sessions']:
            s['open'] = 'websocket'
    elif r < 0.3:
        cfg['transports'] = 'polling'
    cfg['cookie'] = rng.choice(COOKIES)
    # connect handlers that greet their own session (re-entrant send)
    for c in range(len(plan['sessions'])):
        if rng.random() < 0.25:
            plan['app_opts']['handler_faults'].append(
                {'event': 'connect', 'c': c, 'action': 'send',
                 'data': 'reentrant-welcome-%d' % c})
    return plan


def run(plan, sched_values=None, sched_seed=0):
    h = run_server_scenario(plan, sched_values, sched_seed)
    f = oracles.Facts(h)
    v = oracles.check_open(h, f)
    pr = {}
    cfg = plan['config']
    for e in h.app.events:
        if e['ev'] == 'connect':
            k = 'accepted' if e.get('outcome') in ('none', 'true') \
                else 'rejected'
            pr[k] = pr.get(k, 0) + 1
    if cfg.get('cookie'):
        pr['cookie'] = 1
    pi = cfg['ping_interval']
    tot = sum(pi) if isinstance(pi, list) else pi
    if tot != int(tot) or cfg['ping_timeout'] != int(cfg['ping_timeout']):
        pr['fractional'] = 1
    for c in h.clients:
        if c.upgrades:
            pr['upgrade_attempted'] = pr.get('upgrade_attempted', 0) + 1
        if c.jsonp is not None:
            pr['jsonp'] = pr.get('jsonp', 0) + 1
    return oracles.outcome(h, v, pr, bool(pr.get('accepted') or
                                         pr.get('rejected')))


LEVEL_TEXT = ('Seeded configuration and connect-outcome swarm; every open is '
              'a real request through the gateway of a live simulated server '
              '(both implementations, polling and WebSocket, JSONP) and is '
              'compared with a reference function of the configuration '
              '(OPEN fields, upgrades advertised only if a correct upgrade '
              'is then accepted, cookie, 401 body, rejected id gone). '
              'Configuration/input generation inside simulated '
              'conversations; sampling, not proof.')

"""C05  Session events: connect first, one disconnect with the true reason,
none after."""
from .. import gen as _gen
from .. import oracles
from ..scenario import run_server_scenario

ID = 'C05'
SIZES = {'quick': 4000, 'thorough': 120000}
RULE = ('seeded plans: 1-3 sessions (polling / websocket / upgrade incl. '
        'sabotaged handshakes), client CLOSE, app disconnect(sid)/disconnect(),'
        ' ws drop/black-hole, vanish, withheld PONGs, handler exceptions, ties '
        'of two end causes on one tick; tape-drawn scheduling and latencies. '
        'A run is non-trivial when at least one accepted session met an end '
        'cause.')
WORLDS = ['ThreadedServerWorld(WSGIApp+Server)', 'AsyncServerWorld(ASGIApp+AsyncServer)']
COMPONENTS = {
    'real': ['engineio.Server', 'engineio.AsyncServer', 'engineio.socket',
             'engineio.async_socket', 'engineio.WSGIApp', 'engineio.ASGIApp',
             'async_drivers.asgi', 'async_drivers._websocket_wsgi',
             'packet', 'payload'],
    'stub': ['threads/queue/event/sleep (SimThread/SimQueue/SimEvent)',
             'asyncio selector+clock (SimLoop)', 'simple_websocket.Server',
             'WSGI/ASGI gateway actors', 'scripted Engine.IO client',
             'secrets (seeded)']}
ASSUMPTIONS = [
    'sim primitives copy queue.Queue / threading.Event semantics',
    'pre-emption at yield points in every run; 30% of the runs are threaded '
    'runs with coinciding end causes that are also pre-empted between source '
    'lines of engineio functions (sys.settrace)',
    'ASGI server raises from websocket.send once the peer has gone (uvicorn '
    '>= 0.28)',
    'stall runs (a third of the line runs): a pre-empted thread stays away '
    'for up to 32 ticks of virtual time, at most four times; the oracles '
    'are widened by the total injected']
REQUIRED_PROBES = {'quick': [], 'thorough': []}

PROFILE = _gen.profile()
# line-granularity runs (threaded server): end causes made to coincide
LINE_PROFILE = _gen.profile(servers=['threaded'], p_ties=0.9, p_end=0.9,
                            p_app_disconnect=0.6, max_sessions=2)
LINE_HOT = ['close', 'close', 'disconnect', 'check_ping_timeout', '_websocket_handler',
            'receive', 'handle_get_request', '_service_task']
P_LINE = 0.3


def gen(rng, tier, i):
    if rng.random() < P_LINE:
        plan = _gen.line_decorate(
            rng, _gen.gen_server_plan(rng, LINE_PROFILE), LINE_HOT,
            stall=0.3)
        if not plan['line'].get('stall') and rng.random() < 0.5:
            _gen.race_cluster(rng, plan)
        return plan
    return _gen.gen_server_plan(rng, PROFILE)


gen.lines = True


def run(plan, sched_values=None, sched_seed=0):
    h = run_server_scenario(plan, sched_values, sched_seed)
    f = oracles.Facts(h)
    v = oracles.check_session_events(h, f)
    pr = {}
    # heartbeat-boundary ties (PONG exactly at the deadline) belong to C07,
    # where they are aimed at and listed as finding K7
    tie = [x for x in v if x['sig'].endswith(
        ('ws-timeout-tie-pong-at-deadline',
         'ws-reader-timeout-armed-at-upgrade'))]
    if tie:
        pr['heartbeat_tie_left_to_C07'] = len(tie)
        v = [x for x in v if x not in tie]
    nontrivial = False
    for sid, s in f.sess.items():
        if s['accepted'] and f.causes(sid):
            nontrivial = True
            kinds = {c['kind'] for c in f.causes(sid)}
            for k in kinds:
                pr['cause_' + k] = pr.get('cause_' + k, 0) + 1
            ts = sorted(c['t'] for c in f.causes(sid) if c['immediate'])
            if len(ts) >= 2 and ts[1] - ts[0] <= 2 / 1024:
                pr['two_causes_within_2_ticks'] = pr.get(
                    'two_causes_within_2_ticks', 0) + 1
        if not s['accepted']:
            pr['rejected'] = pr.get('rejected', 0) + 1
    return oracles.outcome(h, v, pr, nontrivial)

LEVEL_TEXT = ('Seeded search over schedules, timings, peer behaviours and '
              'faults of the real Server/AsyncServer behind their real '
              'gateways; every run is checked against per-session history '
              'constraints (connect first and once, exactly one disconnect '
              'when an end cause occurred, reason among/first of the causes, '
              'nothing after, handler-exception containment). Sampling, not '
              'proof: a clean batch is evidence.')
LEVEL_NOTE = ('Trusted: sim primitives (queue/event/thread/asyncio clock), '
              'fake simple_websocket and gateways, scripted client, cause '
              'model of the oracle. Pre-emption at yield points, plus between source lines in 30% of the runs (threaded). '
              'async_mode threading and asgi only.')
TECHNIQUE = ('deterministic simulation with fault injection: seeded '
             'schedule/fault search + history oracle')

"""C03  Server-to-client messages: exactly once, in order, one transport,
across upgrade."""
from .. import gen as _gen
from .. import oracles
from ..scenario import run_server_scenario
from ..kernel import TICK
from ._common import *  # noqa

ID = 'C03'
SIZES = {'quick': 5000, 'thorough': 150000}
RULE = ('seeded plans: 1-4 sessions on polling / websocket / polling->upgrade '
        '(conformant and sabotaged handshakes), 0-14 application sends per '
        'session biased to land around poll starts, the probe, the NOOP '
        'release and UPGRADE, overlapping and late polls, heartbeats, ends '
        'and network faults; tape-drawn scheduling and latencies. Non-trivial'
        ': at least one message was accepted for a session that also polled '
        'or upgraded.')
REQUIRED_PROBES = {'quick': ['send_during_upgrading', 'msg_delivered_ws',
                             'msg_delivered_poll'],
                   'thorough': ['send_during_upgrading', 'msg_delivered_ws',
                                'msg_delivered_poll', 'upgrade_failed_then_'
                                'delivered']}
PROFILE = _gen.profile(sends=(0, 14), max_sessions=4, p_end=0.3,
                       p_app_disconnect=0.08, p_disconnect_all=0.0,
                       p_upgrade=0.6, p_reject=0.05, p_handler_fault=0.05,
                       client_msgs=(0, 2), p_pong_misbehave=0.05,
                       p_overlap_polls=0.3, p_burst=0.25)


def gen(rng, tier, i):
    plan = _gen.gen_server_plan(rng, PROFILE)
    plan['snapshots'] = []
    return plan


gen = _gen.with_lines(gen, ['send', 'poll', 'writer', 'handle_get_request', '_websocket_handler', 'close'])

_gen_general = gen


def gen_poll_at_upgrade_end(rng, tier, i):
    """Threaded server: messages queued during the handshake, stray polling
    reads arriving while the handler thread finishes it, and that thread
    losing the CPU somewhere in between (stall run focused on it)."""
    plan = _gen.gen_server_plan(rng, _gen.profile(
        servers=['threaded'], max_sessions=2, p_ws_open=0.0, p_upgrade=1.0,
        p_sabotage=0.0, p_second_upgrade=0.0, sends=(2, 8),
        client_msgs=(0, 1), p_end=0.1, p_app_disconnect=0.0,
        p_disconnect_all=0.0, p_handler_fault=0.0, p_reject=0.0,
        p_ws_fault=0.0, p_overlap_polls=0.0, p_pong_misbehave=0.0,
        p_late_open=0.0))
    plan['snapshots'] = []
    for s in plan['sessions']:
        ups = s.get('upgrades') or []
        if not ups:
            continue
        ups[0].pop('steps', None)
        s['upgrades'] = ups[:1]
        t_up = ups[0]['t']
        s.setdefault('poll', {})['extra'] = sorted(
            t_up + k * TICK for k in rng.sample(range(2, 150), 16))
        for k in rng.sample(range(2, 100), rng.randint(2, 5)):
            plan['app'].append({
                't': s.get('t_open', 0.0) + t_up + k * TICK, 'op': 'send',
                'c': plan['sessions'].index(s),
                'data': {'k': 's', 'v': 'held-%d-%d' % (
                    plan['sessions'].index(s), k)}})
    plan['app'].sort(key=lambda o: o['t'])
    plan['fixed_latency'] = rng.choice([None, None, 1])
    plan['line'] = {'mean': rng.choice([6, 12, 20]), 'max': 64,
                    'focus': ['_websocket_handler'],
                    'stall': rng.choice([16, 32])}
    return plan


def gen_rival_handshakes(rng, tier, i):
    """Either server: a second socket runs a handshake for the session
    while the client's own is under way.  Half of the time both are made to
    fail (a wrong frame after the probe answer), in either order: the
    session must then be back on polling with everything deliverable."""
    from . import c06
    plan = c06.gen_rival_handshake(rng, tier, i)
    plan['snapshots'] = []
    if rng.random() < 0.5:
        for s in plan['sessions']:
            ups = s.get('upgrades') or []
            rivals = [r for r in s.get('raw', []) if r.get('script')]
            if not ups or not rivals:
                continue
            ups[0]['steps'] = [['send', '2probe'], ['wait_frame'],
                               ['delay', rng.choice([1, 2, 4, 8, 16])],
                               ['send', rng.choice(['6', '4oops', '2probe'])],
                               ['delay', 4]]
            rivals[0]['script'] = [
                ['send', '2probe'], ['wait_frame'],
                ['delay', rng.choice([0, 1, 2, 4, 8, 16])],
                ['send', rng.choice(['6', '4oops', '2probe'])]]
            rivals[0]['hold'] = rng.choice([8, 64])
            # (the third socket of the base workload would succeed: a poll
            # is what shows whether the session is readable again)
            for r in s['raw']:
                if r is not rivals[0] and r.get('script'):
                    r.pop('script')
                    r.pop('ws', None)
                    r['query'] = 'transport=polling&EIO=4&c={c}&sid={sid}'
    return plan


def gen(rng, tier, i):
    r = rng.random()
    if r < 0.06:
        return gen_poll_at_upgrade_end(rng, tier, i)
    if r < 0.14:
        return gen_rival_handshakes(rng, tier, i)
    return _gen_general(rng, tier, i)


gen.lines = True


def run(plan, sched_values=None, sched_seed=0):
    h = run_server_scenario(plan, sched_values, sched_seed)
    f = oracles.Facts(h)
    v = oracles.check_delivery(h, f)
    # "... or on polling again if it [the upgrade] fails"
    v += [x for x in oracles.check_upgrade(h, f)
          if x['clause'] == 'failed-upgrade-harmless']
    pr = {}
    nontrivial = False
    for rec in h.app_sends:
        b = rec.get('before')
        if b and b['upgrading']:
            pr['send_during_upgrading'] = pr.get('send_during_upgrading',
                                                 0) + 1
        if oracles._accepted(rec):
            nontrivial = True
    for c in h.clients:
        for r in c.recv:
            if r['ptype'] == 4:
                k = 'msg_delivered_' + ('ws' if r['chan'] in ('ws', 'upg')
                                        else 'poll')
                pr[k] = pr.get(k, 0) + 1
        if any(not u.get('ok') for u in c.upgrades) and \
                any(r['ptype'] == 4 and r['chan'] == 'poll' and
                    r['t'] > c.upgrades[0].get('t_end', 1e9)
                    for r in c.recv):
            pr['upgrade_failed_then_delivered'] = pr.get(
                'upgrade_failed_then_delivered', 0) + 1
        if any(len([x for x in c.recv if x['chan'] == 'poll' and
                    x['ref'] == req.rid and x['ptype'] == 4]) > 16
               for req in c.polls):
            pr['burst_gt_16'] = pr.get('burst_gt_16', 0) + 1
    return oracles.outcome(h, v, pr, nontrivial)


LEVEL_TEXT = ('Seeded search over interleavings of application send() calls, '
              'client polls, the upgrade handshake steps, heartbeats, closes '
              'and network faults against the real servers; each run is '
              'checked for at-most-once, no cross-talk, order inside every '
              'binding context, the NOOP/one-transport rule, no early switch,'
              ' poll drain and (fault-free sessions only) completeness. '
              'Sampling, not proof.')

"""C13  Origin policy is enforced before anything else and CORS headers never
over-grant."""
from .. import gen as _gen
from .. import oracles
from ..scenario import run_server_scenario
from ._common import *  # noqa

ID = 'C13'
SIZES = {'quick': 4000, 'thorough': 120000}
RULE = ('seeded swarm: cors_allowed_origins in {None, "*", string, list, '
        'callable, []} x cors_credentials x Origin {absent, empty, same, '
        'forwarded, listed, prefix / suffix / case / port / scheme '
        'near-misses, foreign} x Host x scheme x X-Forwarded-Proto/Host x '
        'method x request kind (open, poll, post, upgrade, websocket open), '
        'as traffic of live sessions on both servers; reference policy '
        'decides admission; refusals are checked for no effect; CORS '
        'response headers are checked against the policy. Non-trivial: at '
        'least one request carried an Origin.')
REQUIRED_PROBES = {'quick': ['origin_refused', 'origin_allowed',
                             'acao_sent'],
                   'thorough': ['origin_refused', 'origin_allowed',
                                'acao_sent', 'ws_origin_refused']}

GOOD = 'http://sim.local'


def origin_variants(rng, listed):
    base = rng.choice(listed) if listed else GOOD
    return rng.choice([
        None, None, '', GOOD, 'https://sim.local', base, base,
        base + '.evil.com', base[:-1], base.upper(),
        base.replace('://', '://x'), base + ':8080', 'http://evil.example',
        'null', base.replace('http', 'https') if base.startswith('http:')
        else base.replace('https', 'http'), base + '/'])


def gen(rng, tier, i):
    prof = _gen.profile(max_sessions=3, p_upgrade=0.4, p_sabotage=0.0,
                        p_second_upgrade=0.0, sends=(0, 3),
                        client_msgs=(0, 2), p_end=0.1, p_app_disconnect=0.0,
                        p_disconnect_all=0.0, p_handler_fault=0.0,
                        p_reject=0.05, p_ws_fault=0.0, p_overlap_polls=0.0,
                        p_pong_misbehave=0.0, span=3.0, p_ws_open=0.35)
    plan = _gen.gen_server_plan(rng, prof)
    listed = ['http://app.example', 'https://app.example:8443',
              'http://sim.local']
    form = rng.choice(['none', 'none', 'star', 'string', 'list', 'callable',
                       'empty'])
    cfg = plan['config']
    if form == 'star':
        cfg['cors_allowed_origins'] = '*'
    elif form == 'string':
        cfg['cors_allowed_origins'] = listed[0]
    elif form == 'list':
        cfg['cors_allowed_origins'] = listed[:rng.randint(1, 3)]
    elif form == 'callable':
        cfg['cors_allowed_origins'] = {'callable': listed[:2]}
    elif form == 'empty':
        cfg['cors_allowed_origins'] = []
    if rng.random() < 0.3:
        cfg['cors_credentials'] = False
    pool = listed if form in ('string', 'list', 'callable') else []
    for s in plan['sessions']:
        hdrs = []
        s['scheme'] = rng.choice(['http', 'http', 'https'])
        if rng.random() < 0.3:
            hdrs.append(['Host', rng.choice(['sim.local', 'sim.local:8000',
                                             'other.local'])])
        if rng.random() < 0.25:
            hdrs.append(['X-Forwarded-Proto', rng.choice(
                ['https', 'http', 'https, http'])])
        if rng.random() < 0.2:
            hdrs.append(['X-Forwarded-Host', rng.choice(
                ['pub.example', 'pub.example, inner', 'sim.local'])])
        o = origin_variants(rng, pool)
        if rng.random() < 0.5:
            # an origin that the default policy accepts for this session
            host = dict((h[0].lower(), h[1]) for h in hdrs).get(
                'host', 'sim.local')
            o = '%s://%s' % (s['scheme'], host)
            if rng.random() < 0.3 and any(h[0].startswith('X-F')
                                          for h in hdrs):
                hd = dict((h[0].lower(), h[1]) for h in hdrs)
                o = '%s://%s' % (
                    hd.get('x-forwarded-proto', s['scheme']).split(
                        ',')[0].strip(),
                    hd.get('x-forwarded-host', host).split(',')[0].strip())
        if o is not None:
            hdrs.append(['Origin', o])
        s['headers'] = hdrs
        # raw requests of every kind with their own Origin
        raws = []
        for _ in range(rng.randint(0, 4)):
            r = _gen.raw_request(rng, _gen.ticks(rng, 0.05, 3.0))
            r['query'] = rng.choice([
                'transport=polling&EIO=4&c={c}',
                'transport=polling&EIO=4&c={c}&sid={sid}',
                'transport=polling&EIO=4&c={c}&sid={sid}',
                'transport=websocket&EIO=4&c={c}&sid={sid}',
                'transport=websocket&EIO=4&c={c}'])
            r['method'] = rng.choice(['GET', 'GET', 'POST', 'OPTIONS'])
            r.pop('ws', None)
            hh = [h for h in hdrs if h[0] != 'Origin']
            oo = origin_variants(rng, pool)
            if oo is not None:
                hh.append(['Origin', oo])
            if 'websocket' in r['query'] and r['method'] == 'GET':
                hh += [['Upgrade', 'websocket'], ['Connection', 'Upgrade']]
                r['ws'] = True
                r['hold'] = 4
            if r['method'] == 'POST':
                r['body'] = '4o%d' % rng.randint(0, 10 ** 6)
            if rng.random() < 0.3:
                hh.append(['Access-Control-Request-Headers', 'x-custom'])
            r['headers'] = hh
            raws.append(r)
        s['raw'] = sorted(raws, key=lambda r: r['t'])
    return plan


def run(plan, sched_values=None, sched_seed=0):
    h = run_server_scenario(plan, sched_values, sched_seed)
    f = oracles.Facts(h)
    v = oracles.check_origin(h, f)
    pr = {}
    cfg = plan['config'].get('cors_allowed_origins')
    n = 0
    for req in h.world.requests:
        hd = {k.lower(): v for k, v in req.headers}
        if not hd.get('origin') or req.seq_arrive is None:
            continue
        n += 1
        ok = oracles.ref_origin_allowed(cfg, req, h.world.impl)
        if ok == oracles.GREY_ORIGIN:
            continue
        if ok is False:
            k = 'ws_origin_refused' if req.kind == 'ws' else 'origin_refused'
            pr[k] = pr.get(k, 0) + 1
        elif ok:
            pr['origin_allowed'] = pr.get('origin_allowed', 0) + 1
        if any(a.lower() == 'access-control-allow-origin'
               for a, b in req.resp_headers or []):
            pr['acao_sent'] = pr.get('acao_sent', 0) + 1
    return oracles.outcome(h, v, pr, n > 0)


LEVEL_TEXT = ('Seeded swarm over origin policies, Origin / Host / scheme / '
              'forwarded-header combinations and request kinds, issued as '
              'traffic of live simulated sessions on both servers (HTTP and '
              'WebSocket scopes) and judged by a reference origin policy; '
              'refusals are checked black-box for no effect and CORS '
              'response headers for never over-granting. Input / '
              'configuration generation inside simulated conversations; '
              'sampling, not proof.')

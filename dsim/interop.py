"""Interoperation scenarios (C10): a real engineio client connected to a real
engineio server, both inside one kernel, over the simulated network."""
from . import kernel as K
from . import refmodel as R
from .tape import Tape
from .kernel import TICK
from .worlds import make_world
from .scenario import ServerApp, _config_from_plan
from .clientworld import make_client_world
from .gen import ticks, Payloads
from .oracles import V, _short
from . import oracles as _O


class IHistory:
    pass


def run_interop_scenario(plan, sched_values=None, sched_seed=0):
    tape = Tape(seed=sched_seed, values=sched_values)
    k = K.Kernel(tape, horizon=plan.get('horizon', 60.0),
                 step_cap=plan.get('step_cap', 300000))
    k.fixed_latency = plan.get('fixed_latency')
    if plan.get('line'):
        import engineio as _e
        import os as _os
        k.enable_lines(plan['line'], (_os.path.dirname(_e.__file__) + '/',))
    world = make_world(plan['server'], k,
                       config=_config_from_plan(plan.get('config', {})),
                       app_opts=plan.get('app_opts', {}),
                       rng_seed=plan.get('rng_seed', 0))
    world.link_faults = list(plan.get('link_faults', []))
    h = IHistory()
    h.plan, h.k, h.world, h.tape = plan, k, world, tape
    h.sapp = ServerApp(world, plan.get('app_opts', {}))
    h.cw = make_client_world(plan['client']['kind'], world, 0,
                             plan['client'])
    h.server_sends = []
    try:
        for op in plan['client'].get('ops', []):
            k.at(op['t'], lambda op=op: h.cw.start_op(op), 'cop')
        for op in plan.get('server_ops', []):
            k.at(op['t'], lambda op=op: _server_op(h, op), 'sop')
        k.run()
        # what the connect handler sent counts as sent by the server
        for e in h.sapp.events:
            if e['ev'] == 'connect' and e.get('fault') == 'send':
                for f in plan.get('app_opts', {}).get('handler_faults', []):
                    if f.get('event') == 'connect':
                        for d in ServerApp._send_data(f):
                            h.server_sends.append({
                                'seq_start': e['seq'], 't_start': e['t'],
                                'sid': e['sid'], 'val': d, 'greeting': True,
                                'before': {'closed': False,
                                           'closing': False}})
        h.server_sends.sort(key=lambda r: (r['seq_start'] is None,
                                           r['seq_start'] or 0))
        import engineio.base_client as bc
        h.final = {
            'now': k.now, 'capped': k.capped,
            'client_state': h.cw.client.state,
            'tasks_alive': h.cw.tasks_alive(),
            'table': {sid: world.peek(sid)
                      for sid in list(world.server.sockets)},
            'blocked': [(th.name, th.blocked_on)
                        for th in k.blocked_threads()],
            'thread_errors': list(k.thread_errors),
            'loop_errors': list(k.loop_errors), 'steps': k.steps,
        }
        h.digest = k.log_digest()
        h.sched_digest = k.sched_digest.hexdigest()
        from . import oracles as _o
        _o.EPS = _o.EPS0 + k.stall_total
    finally:
        h.leaked = k.shutdown()
        h.cw.close()
        world.close()
    return h


def _server_op(h, op):
    w = h.world
    sids = h.sapp.sid_of.get(0) or h.sapp.sid_of.get(None)
    if not sids:
        return
    sid = sids[-1]
    if op['op'] == 'send':
        val = R.spec_to_value(op['data'])
        rec = w.api('send', sid, val, tag=op)
        rec.update({'sid': sid, 'val': val, 'before': w.peek(sid)})
        h.server_sends.append(rec)
    elif op['op'] == 'disconnect':
        rec = w.api('disconnect', sid, tag=op)
        rec.update({'sid': sid, 'before': w.peek(sid)})


# ---------------------------------------------------------------------------

def gen_interop_plan(rng, prof=None):
    p = prof or {}
    server = rng.choice(['threaded', 'asyncio'])
    kind = rng.choice(['threaded', 'asyncio'])
    I = rng.choice(p.get('I', [0.5, 1.0, 2.0, 1.5]))
    T = rng.choice(p.get('T', [0.5, 1.0, 0.75]))
    transports = rng.choice([None, None, ['polling'], ['websocket'],
                             ['polling', 'websocket']])
    s_transports = rng.choice([None, None, None, ['polling'],
                               ['websocket']])
    if s_transports == ['websocket'] and (transports or ['polling'])[0] != \
            'websocket':
        transports = ['websocket']
    if s_transports == ['polling'] and transports == ['websocket']:
        transports = None
    cfg = {'ping_interval': I, 'ping_timeout': T,
           'async_handlers': rng.random() < 0.5}
    if rng.random() < 0.25:
        cfg['ping_interval'] = [I, rng.choice([0.25, 0.5, 1.0])]
    if s_transports:
        cfg['transports'] = s_transports
    if rng.random() < 0.1:
        cfg['allow_upgrades'] = False
    rt = rng.choice([1, 2, 5])
    spay = Payloads(rng, ('s', 'j', 'b'), 's')
    cpay = Payloads(rng, ('s', 'j', 'b'), 'c')
    ops = [{'t': ticks(rng, 0.0, 0.3), 'op': 'connect',
            'url': 'http://sim.local?c=0'}]
    if transports is not None:
        ops[0]['transports'] = transports
    span = p.get('span', 6.0)
    idle = rng.random() < p.get('p_idle', 0.3)
    t_idle0 = None
    if idle:
        # an idle stretch of >= 10 heartbeat cycles in the middle
        t_idle0 = rng.uniform(0.5, 2.0)
        span = t_idle0 + 10 * (I + 0.1) + rng.uniform(0.5, 2.0)
    sops = []

    def t_active():
        while True:
            t = ticks(rng, 0.05, span)
            if not idle or t < t_idle0 or t > t_idle0 + 10 * (I + 0.1):
                return t
    for _ in range(rng.randint(*p.get('bursts', (0, 5)))):
        t = t_active()
        n = rng.choice([1, 1, 2, 5, 16, 17, 40])
        who = rng.random() < 0.5
        for j in range(n):
            tt = t + (j // 8) * TICK * rng.choice([0, 0, 1])
            if who:
                ops.append({'t': tt, 'op': 'send', 'data': cpay.next()})
            else:
                sops.append({'t': tt, 'op': 'send', 'data': spay.next()})
    end = rng.random()
    t_end = None
    if end < p.get('p_end', 0.6):
        t_end = ticks(rng, 0.05, span) if not idle else span
        if rng.random() < 0.5:
            ops.append({'t': t_end, 'op': 'disconnect'})
        else:
            sops.append({'t': t_end, 'op': 'disconnect'})
    ops.sort(key=lambda o: o['t'])
    sops.sort(key=lambda o: o['t'])
    link = []
    if rng.random() < p.get('p_fault', 0.25):
        t0 = ticks(rng, 0.2, span)
        link.append({'t0': t0, 't1': t0 + rng.choice([0.1, 1.0, 30.0]),
                     'verdict': rng.choice(['refuse', 'lose_req',
                                            'lose_resp']), 'on': 'any'})
    greet = []
    if rng.random() < p.get('p_greet', 0.3):
        # the application greets the new session from its connect handler:
        # the messages travel in the answer to the open request
        greet.append({'event': 'connect', 'nth': 0, 'action': 'send',
                      'data': 'greeting', 'n': rng.choice([1, 1, 2, 3])})
    plan = {'server': server, 'config': cfg,
            'client': {'kind': kind, 'request_timeout': rt, 'ops': ops,
                       'handler_actions': [],
                       'slow_ws_write': rng.choice([0, 0, 0, 1, 2, 4])},
            'server_ops': sops, 'link_faults': link,
            'app_opts': {'connect': {}, 'handler_faults': greet,
                         'coroutine_handlers': rng.random() < 0.7},
            'horizon': span + I + 3 * T + 5 + 2 * rt + 3.0,
            'rng_seed': rng.randrange(1 << 30),
            'meta': {'idle': [t_idle0, t_idle0 + 10 * (I + 0.1)]
                     if idle else None, 't_end': t_end}}
    return plan


# ---------------------------------------------------------------------------

def check_interop(h):
    out = []
    plan = h.plan
    pair = '%s-client/%s-server' % (h.cw.kind, h.world.impl)
    cfg = plan['config']
    pi = cfg['ping_interval']
    I = pi[0] if isinstance(pi, list) else pi
    T = cfg['ping_timeout']
    rt = plan['client'].get('request_timeout', 5)
    end = h.final['now']
    faulty = bool(plan.get('link_faults'))
    capp, sapp = h.cw.app, h.sapp
    conn_op = next((o for o in capp.ops if o['op']['op'] == 'connect'), None)
    if conn_op is None or conn_op['seq_start'] is None:
        return out
    c_conn = [e for e in capp.events if e['ev'] == 'connect']
    s_conn = [e for e in sapp.events if e['ev'] == 'connect']
    c_disc = [e for e in capp.events if e['ev'] == 'disconnect']
    s_disc = [e for e in sapp.events if e['ev'] == 'disconnect']
    if conn_op['exc']:
        big = [r for r in h.world.requests
               if r.kind == 'http' and r.method == 'GET' and
               'sid=' not in (r.query or '') and r.status == 200 and
               r.resp_body and r.resp_body.count(b'\x1e') + 1 > 16]
        if big and conn_op.get('exc_type') == 'ConnectionError':
            # K2 at the handshake: the application sent so much to the new
            # session before its open request was answered that the answer
            # holds more packets than this package's client decodes
            out.append(V('any-burst-size',
                         '%s|server-burst-over-16-aborts-client' % pair,
                         'the open request was answered with %d packets '
                         '(OPEN plus everything already queued); the client '
                         'refused the payload (max_decode_packets) and '
                         'connect() raised %s' % (
                             big[0].resp_body.count(b'\x1e') + 1,
                             conn_op['exc'])))
            return out
        if not faulty and conn_op.get('exc_type') != 'ValueError':
            out.append(V('connects', '%s|connect-failed|%s' % (
                pair, conn_op['exc_type']),
                'fault-free connect() of this package\'s client to this '
                'package\'s server (client transports %r, server transports '
                '%r) raised %s' % (conn_op['op'].get('transports'),
                                   cfg.get('transports'), conn_op['exc'])))
        return out
    if len(c_conn) != 1 or len(s_conn) < 1:
        out.append(V('connects', '%s|connect-events' % pair,
                     'client connect events %d, server connect events %d' % (
                         len(c_conn), len(s_conn))))
        return out
    t_c_end = c_disc[0]['t'] if c_disc else None
    t_s_end = s_disc[0]['t'] if s_disc else None
    # ---- K2: a poll response of more than 16 packets -----------------------------
    for req in h.world.requests:
        if req.kind == 'http' and req.method == 'GET' and \
                req.status == 200 and req.resp_body and \
                req.resp_body.count(b'\x1e') + 1 > 16 and \
                'sid=' in req.query and req.seq_resp is not None:
            # (the client refuses the payload the moment it arrives; when it
            # gets round to reporting 'transport error' - or whether the
            # application's own disconnect() comes first - is secondary)
            if any('Unexpected packet from server' in str(m[3]) and
                   abs(m[1] - req.t_resp) <= _O.EPS for m in h.cw.logs):
                out.append(V('any-burst-size',
                             '%s|server-burst-over-16-aborts-client' % pair,
                             'the server answered poll %d with %d packets '
                             '(everything queued, as it should); the client '
                             'refused the payload (max_decode_packets) and '
                             'dropped the healthy connection with '
                             '\'transport error\' (disconnect seen at %s); '
                             'the messages in it were lost' % (
                                 req.rid, req.resp_body.count(b'\x1e') + 1,
                                 ('t=%.4f' % c_disc[0]['t']) if c_disc
                                 else 'no time')))
                return out
    # ---- adopted heartbeat settings ---------------------------------------------
    ce = c_conn[0]
    G = pi[1] if isinstance(pi, list) else 0
    if abs((ce['ping_interval'] or 0) - (I + G)) > 1e-9 or \
            abs((ce['ping_timeout'] or 0) - T) > 1e-9:
        out.append(V('agree-on-heartbeat', '%s|heartbeat-settings-differ' %
                     pair, 'server interval %r grace %r timeout %r; client '
                     'adopted interval %r timeout %r' % (
                         I, G, T, ce['ping_interval'], ce['ping_timeout'])))
    # ---- messages client -> server ----------------------------------------------
    sends = [o for o in capp.ops if o['op']['op'] == 'send' and
             o['seq_start'] is not None]
    got = [e for e in sapp.events if e['ev'] == 'message']
    out.extend(_direction(
        pair, 'client-to-server',
        [(o['seq_start'], o['t_start'], R.spec_to_value(o['op']['data']),
          o['state_before'] == 'connected') for o in sends],
        got, t_c_end, t_s_end, end, rt + I + T, faulty,
        h.world.server.async_handlers))
    # ---- messages server -> client ----------------------------------------------
    ssends = [r for r in h.server_sends if r['seq_start'] is not None]
    cgot = [e for e in capp.events if e['ev'] == 'message']
    out.extend(_direction(
        pair, 'server-to-client',
        [(r['seq_start'], r['t_start'], r['val'],
          bool(r.get('before') and not r['before']['closed'] and
               not r['before']['closing'])) for r in ssends],
        cgot, t_s_end, t_c_end, end, rt + I + T, faulty, True))
    # ---- idle connections stay up ------------------------------------------------
    idle = plan.get('meta', {}).get('idle')
    if idle and not faulty:
        for side, disc in (('client', c_disc), ('server', s_disc)):
            for e in disc:
                if idle[0] <= e['t'] <= idle[1]:
                    out.append(V('idle-keepalive',
                                 '%s|disconnect-while-idle|%s|%s' % (
                                     pair, side, e['arg']),
                                 'idle stretch t=%.3f..%.3f (>= 10 '
                                 'heartbeat cycles, interval %r timeout %r): '
                                 '%s saw disconnect %r at t=%.4f' % (
                                     idle[0], idle[1], I, T, side,
                                     e['arg'], e['t'])))
    # ---- disconnects -------------------------------------------------------------
    if len(c_disc) > 1 or len(s_disc) > len(s_conn):
        out.append(V('one-disconnect', '%s|double-disconnect' % pair,
                     'client disconnect events %r, server disconnect events '
                     '%r' % ([e['arg'] for e in c_disc],
                             [e['arg'] for e in s_disc])))
    t_end = plan.get('meta', {}).get('t_end')
    initiated = [o for o in capp.ops if o['op']['op'] == 'disconnect' and
                 o['seq_start'] is not None and
                 o['state_before'] == 'connected']
    s_init = [a for a in h.world.api_calls if a['name'] == 'disconnect' and
              a['seq_start'] is not None and a.get('before') and
              not a['before']['closed']]
    t0 = min([o['t_start'] for o in initiated] +
             [a['t_start'] for a in s_init], default=None)
    bound = I + 3 * T + 2 * rt + 5 + 1.0
    if t0 is not None and not faulty and t0 + bound < end:
        if not c_disc:
            out.append(V('both-see-disconnect',
                         '%s|client-saw-no-disconnect|%s' % (
                             pair, 'client' if initiated else 'server'),
                         'disconnect initiated at t=%.4f by the %s: the '
                         'client had no disconnect event by t=%.4f (state '
                         '%r, blocked %r)' % (
                             t0, 'client' if initiated else 'server', end,
                             h.final['client_state'],
                             h.final['blocked'][:3])))
        if not s_disc:
            out.append(V('both-see-disconnect',
                         '%s|server-saw-no-disconnect|%s' % (
                             pair, 'client' if initiated else 'server'),
                         'disconnect initiated at t=%.4f by the %s: the '
                         'server had no disconnect event by t=%.4f' % (
                             t0, 'client' if initiated else 'server', end)))
    if t0 is None and not faulty and not idle:
        # nobody ended it: nobody may see a disconnect
        for side, disc in (('client', c_disc), ('server', s_disc)):
            if disc:
                out.append(V('no-spurious-disconnect',
                             '%s|disconnect-without-cause|%s|%s' % (
                                 pair, side, disc[0]['arg']),
                             '%s saw disconnect %r at t=%.4f although '
                             'neither side ended the connection and no '
                             'fault was injected' % (side, disc[0]['arg'],
                                                     disc[0]['t'])))
                break
    return out


def _direction(pair, name, sent, got, t_sender_end, t_recv_end, end, slack,
               faulty, background):
    """sent: [(seq, t, value, connected)], got: handler events."""
    out = []
    used = [False] * len(got)
    idxs = []
    stop = min([x for x in (t_sender_end, t_recv_end) if x is not None],
               default=None)
    for (sq, t, val, connected) in sent:
        hit = [i for i, e in enumerate(got)
               if not used[i] and R.same_value(e['arg'], val)]
        if hit:
            used[hit[0]] = True
            idxs.append((sq, t, hit[0]))
            continue
        # (a message still in flight when either side ends the connection
        # may be lost: there is no acknowledgement in the protocol)
        live = connected and (stop is None or t < stop - 64 * TICK) and \
            t + slack < end
        if live and not faulty:
            loose = [e for e in got if str(e['arg']) == str(val)]
            burst = sum(1 for x in sent if abs(x[1] - t) <= 2 * TICK)
            out.append(V('no-loss', '%s|%s|%s|burst%s' % (
                pair, name, 'changed-payload' if loose else 'lost',
                '>16' if burst > 16 else '<=16'),
                '%s: %r sent at t=%.4f while connected (burst of %d around '
                'that time) %s' % (
                    name, _short(val), t, burst,
                    'arrived as %r' % _short(loose[0]['arg']) if loose
                    else 'never arrived (receiver ended at %r, run ended at '
                    '%.3f)' % (stop, end))))
            break
    for i, e in enumerate(got):
        if not used[i] and not (isinstance(e['arg'], str) and
                                e['arg'].startswith('from-handler')):
            out.append(V('exactly-once', '%s|%s|duplicate-or-spurious' % (
                pair, name), '%s: receiver got %r which was not sent '
                '(again)' % (name, _short(e['arg']))))
            break
    # order: sends on different ticks have a binding order; the receiver's
    # dispatch order must agree
    order = sorted(idxs, key=lambda x: x[2])
    keyf = (lambda e: (e.get('spawn_seq') or 0, e['seq']))
    recv_order = sorted(idxs, key=lambda x: keyf(got[x[2]]))
    ts = [x[1] for x in recv_order]
    if any(ts[i] > ts[i + 1] + _O.EPS for i in range(len(ts) - 1)):
        out.append(V('in-order', '%s|%s|reordered' % (pair, name),
                     '%s: messages were dispatched in an order different '
                     'from the order they were sent in' % name))
    return out

"""Batch execution of simulated runs for one property: seeding, parallel
workers, known-finding matching, minimisation, replay files, evidence."""
import concurrent.futures as cf
import faulthandler
import hashlib
import importlib
import json
import multiprocessing
import os
import random
import subprocess
import sys
import time
import traceback

from .tape import derive_seed

VERIF = os.path.dirname(os.path.dirname(os.path.abspath(__file__)))
REPLAY_DIR = os.environ.get('VERIF_REPLAY_DIR') or \
    os.path.join(VERIF, 'replays')
EVIDENCE_DIR = os.environ.get('VERIF_EVIDENCE_DIR') or \
    os.path.join(VERIF, 'evidence')
KNOWN_FILE = os.path.join(VERIF, 'known_findings.json')
PY = sys.executable

EXIT_OK, EXIT_VIOLATION, EXIT_HARNESS = 0, 1, 2


def load_prop(pid):
    return importlib.import_module('dsim.props.' + pid.lower())


def load_known():
    try:
        with open(KNOWN_FILE) as f:
            data = json.load(f)
    except FileNotFoundError:
        return []
    return data.get('findings', [])


def known_match(known, pid, sig):
    for k in known:
        if k.get('status') != 'open' or k.get('property') != pid:
            continue
        if k.get('signature') == sig:
            return k
    return None


class RunTimeout(BaseException):
    pass


RUN_TIMEOUT_S = float(os.environ.get('VERIF_RUN_TIMEOUT_S', 60))


def guarded_run(mod, plan, **kw):
    """mod.run under a real-time alarm.  A simulated run needs milliseconds;
    one that is still computing after RUN_TIMEOUT_S seconds of real time has
    an actor that never reaches a yield point again (e.g. unbounded
    recursion in the code under test).  That is reported as a violation of
    the property being checked (every property presupposes that the code
    terminates), and the process is marked poisoned: the busy thread cannot
    be stopped, so the caller must not start another run in this process."""
    import signal
    import threading

    def on_alarm(signum, frame):
        e = RunTimeout()
        e.where = ''.join(traceback.format_stack(frame)[-14:])
        raise e
    use_alarm = threading.current_thread() is threading.main_thread()
    if use_alarm:
        old = signal.signal(signal.SIGALRM, on_alarm)
        # (repeats: the code under test has bare "except:" clauses that can
        # swallow one delivery when the busy actor is the kernel thread)
        signal.setitimer(signal.ITIMER_REAL, RUN_TIMEOUT_S, 0.05)
    try:
        return mod.run(plan, **kw)
    except RunTimeout as rt:
        for _ in range(3):
            try:
                signal.setitimer(signal.ITIMER_REAL, 0)
                break
            except RunTimeout:
                pass
        busy = []
        for tid, fr in sys._current_frames().items():
            if tid == threading.get_ident():
                continue
            st = traceback.extract_stack(fr)
            code = [f for f in st if '/engineio/' in f.filename]
            if code and '/engineio/' in st[-1].filename:
                busy.append(' <- '.join('%s:%d %s' % (
                    os.path.basename(f.filename), f.lineno, f.name)
                    for f in reversed(code[-6:])))
        if not busy:
            st = traceback.extract_stack(sys._getframe())
            code = [f for f in st if '/engineio/' in f.filename]
            if code:
                busy.append(' <- '.join('%s:%d %s' % (
                    os.path.basename(f.filename), f.lineno, f.name)
                    for f in reversed(code[-6:])))
        if not busy:
            # no actor is inside the code under test: the harness itself is
            # stuck; leave every thread's stack for the post-mortem
            try:
                import faulthandler
                with open(os.path.join(
                        os.environ.get('VERIF_REPLAY_DIR') or '/dev/shm',
                        'stuck-%d.txt' % os.getpid()), 'w') as fh:
                    from .kernel import Kernel
                    fh.write('%s\n' % Kernel.last.describe())
                    fh.write('kernel thread was at:\n%s\n' % getattr(
                        rt, 'where', '?'))
                    faulthandler.dump_traceback(fh, all_threads=True)
            except Exception:  # noqa
                pass
        where = busy[0] if busy else 'unknown'
        fn = where.split(' ')[0].split(':')[0] if busy else 'unknown'
        return {'violations': [{
            'clause': 'terminates',
            'sig': 'run-does-not-terminate|%s' % fn,
            'text': 'the simulated run was still computing after %.0f s of '
                    'real time (no actor reached a yield point): %s' % (
                        RUN_TIMEOUT_S, where)}],
            'probes': {}, 'faults': {}, 'sim_s': 0.0, 'digest': 'timeout',
            'sched_digest': 'timeout', 'states': [], 'nontrivial': True,
            'sched': kw.get('sched_values') or [], 'summary': {},
            'leaked': 1, 'extra': {}, 'poisoned': True}
    finally:
        if use_alarm:
            signal.setitimer(signal.ITIMER_REAL, 0)
            signal.signal(signal.SIGALRM, old)


def run_one(mod, tier, verif_seed, i):
    """One simulated run; returns a JSON-able summary (never raises)."""
    run_seed = derive_seed(verif_seed, mod.ID, tier, i)
    t0 = time.time()
    try:
        rng = random.Random(run_seed)
        plan = mod.gen(rng, tier, i)
        # (the schedule tape gets a seed of its own: seeded like the plan
        # generator it would replay the generator's stream, and a plan chosen
        # by an early draw would always meet the same early schedule choices)
        out = guarded_run(mod, plan,
                          sched_seed=derive_seed(run_seed, 'tape'))
        out['plan'] = plan
    except Exception:
        return {'i': i, 'run_seed': run_seed, 'harness': traceback.format_exc(),
                'wall': time.time() - t0}
    out['i'] = i
    out['run_seed'] = run_seed
    out['wall'] = time.time() - t0
    return out


def _worker(args):
    pid, tier, verif_seed, indices, deadline, per_run_timeout = args
    mod = load_prop(pid)
    agg = new_agg()
    poisoned = False
    for i in indices:
        if time.time() > deadline or poisoned:
            if poisoned:
                agg['unfinished'].append(i)
            else:
                agg['skipped'] += 1
            continue
        faulthandler.dump_traceback_later(per_run_timeout, exit=True)
        out = run_one(mod, tier, verif_seed, i)
        faulthandler.cancel_dump_traceback_later()
        fold(agg, out)
        if out.get('poisoned'):
            poisoned = True     # a thread of this process spins forever
    agg['states'] = sorted(agg['states'])[:20000]
    agg['sched_digests'] = sorted(agg['sched_digests'])
    return agg


def new_agg():
    return {'runs': 0, 'skipped': 0, 'sim_s': 0.0, 'probes': {}, 'faults': {},
            'states': set(), 'sched_digests': set(), 'nontrivial': 0,
            'violating': [], 'harness': [], 'samples': [], 'wall': 0.0,
            'digests': {}, 'leaked': 0, 'extra': {}, 'unfinished': [],
            'timeouts': 0}


def fold(agg, out):
    agg['runs'] += 1
    agg['wall'] += out.get('wall', 0.0)
    if out.get('harness'):
        agg['harness'].append({'i': out['i'], 'run_seed': out['run_seed'],
                               'text': out['harness']})
        return
    agg['sim_s'] += out.get('sim_s', 0.0)
    for k, v in out.get('probes', {}).items():
        agg['probes'][k] = agg['probes'].get(k, 0) + v
    for k, v in out.get('faults', {}).items():
        agg['faults'][k] = agg['faults'].get(k, 0) + v
    for k, v in out.get('extra', {}).items():
        if isinstance(v, (int, float)):
            agg['extra'][k] = agg['extra'].get(k, 0) + v
    for s in out.get('states', []):
        if len(agg['states']) < 50000:
            agg['states'].add(s)
    if out.get('nontrivial'):
        agg['nontrivial'] += 1
        if out.get('digest'):
            agg['sched_digests'].add(out['digest'])
    agg['leaked'] += out.get('leaked', 0)
    if out['i'] < 64:
        agg['digests'][str(out['i'])] = out.get('digest')
    if len(agg['samples']) < 2 and out.get('nontrivial'):
        agg['samples'].append({'run_seed': out['run_seed'],
                               'plan': out.get('plan'),
                               'summary': out.get('summary'),
                               'violations': len(out.get('violations', []))})
    if out.get('poisoned'):
        agg['timeouts'] += 1
    if out.get('violations'):
        agg['violating'].append({'i': out['i'], 'run_seed': out['run_seed'],
                                 'plan': out['plan'], 'sched': out.get('sched'),
                                 'violations': out['violations'],
                                 'digest': out.get('digest')})


def merge(aggs):
    tot = new_agg()
    for a in aggs:
        tot['runs'] += a['runs']
        tot['skipped'] += a['skipped']
        tot['sim_s'] += a['sim_s']
        tot['wall'] += a['wall']
        tot['nontrivial'] += a['nontrivial']
        tot['leaked'] += a['leaked']
        tot['unfinished'] += a.get('unfinished', [])
        tot['timeouts'] += a.get('timeouts', 0)
        for k, v in a['probes'].items():
            tot['probes'][k] = tot['probes'].get(k, 0) + v
        for k, v in a['faults'].items():
            tot['faults'][k] = tot['faults'].get(k, 0) + v
        for k, v in a['extra'].items():
            tot['extra'][k] = tot['extra'].get(k, 0) + v
        tot['states'].update(a['states'])
        tot['sched_digests'].update(a['sched_digests'])
        tot['violating'].extend(a['violating'])
        tot['harness'].extend(a['harness'])
        tot['digests'].update(a['digests'])
        for s in a['samples']:
            if len(tot['samples']) < 3:
                tot['samples'].append(s)
    return tot


# ---------------------------------------------------------------------------
# replay + minimisation
# ---------------------------------------------------------------------------

def replay_case(mod, plan, sched):
    return guarded_run(mod, plan, sched_values=sched)


def _sig_set(out):
    return {(v['clause'], v['sig']) for v in out.get('violations', [])}


def _lists_in(obj, path=()):
    """Yield paths to every list inside a JSON value (deepest first)."""
    if isinstance(obj, dict):
        for k in obj:
            yield from _lists_in(obj[k], path + (k,))
    elif isinstance(obj, list):
        for i, v in enumerate(obj):
            yield from _lists_in(v, path + (i,))
        yield path


def _get(obj, path):
    for p in path:
        obj = obj[p]
    return obj


def minimise(mod, plan, sched, target, budget_s=20.0):
    """Delta-debug the plan (drop list elements) and the schedule (zero it in
    chunks) while the same (clause, signature) still fails."""
    t_end = time.time() + budget_s
    plan = json.loads(json.dumps(plan))
    sched = list(sched or [])
    tries = 0

    def still_fails(p, s):
        nonlocal tries
        tries += 1
        try:
            out = replay_case(mod, p, s)
        except Exception:
            return False
        return target in _sig_set(out)

    # schedule first: an all-zero tape is the canonical schedule
    if still_fails(plan, []):
        sched = []
    else:
        chunk = max(1, len(sched) // 2)
        while chunk >= 1 and time.time() < t_end:
            i = 0
            while i < len(sched) and time.time() < t_end:
                if any(sched[i:i + chunk]):
                    cand = sched[:i] + [0] * len(sched[i:i + chunk]) + \
                        sched[i + chunk:]
                    if still_fails(plan, cand):
                        sched = cand
                i += chunk
            chunk //= 2
    changed = True
    while changed and time.time() < t_end:
        changed = False
        for path in list(_lists_in(plan)):
            try:
                lst = _get(plan, path)
            except (KeyError, IndexError, TypeError):
                continue
            if not isinstance(lst, list):
                continue
            j = len(lst) - 1
            while j >= 0 and time.time() < t_end:
                cand = json.loads(json.dumps(plan))
                cl = _get(cand, path)
                del cl[j]
                if still_fails(cand, sched):
                    plan = cand
                    lst = _get(plan, path)
                    changed = True
                j -= 1
    while sched and sched[-1] == 0:
        sched.pop()
    return plan, sched, tries


def write_replay(pid, viol, plan, sched, out, minimised):
    os.makedirs(REPLAY_DIR, exist_ok=True)
    name = '%s-%s.json' % (pid, viol['run_seed'])
    path = os.path.join(REPLAY_DIR, name)
    v0 = out['violations'][0]
    doc = {'property': pid, 'clause': v0['clause'], 'signature': v0['sig'],
           'violation_text': v0['text'], 'run_seed': viol['run_seed'],
           'minimised': minimised, 'plan': plan, 'schedule': sched,
           'log_digest': out.get('digest'),
           'all_violations': out['violations'][:10]}
    with open(path, 'w') as f:
        json.dump(doc, f, indent=1)     # key order is part of the plan
    return path


def replay_file(path, quiet=False):
    """Re-execute a replay file; exit status per the interface."""
    with open(path) as f:
        doc = json.load(f)
    mod = load_prop(doc['property'])
    if doc.get('log_digest') == 'timeout' and not doc['schedule']:
        # a run that never ended has no recorded tape: it is re-generated
        # from the run's seed
        out = guarded_run(mod, doc['plan'],
                          sched_seed=derive_seed(doc['run_seed'], 'tape'))
    else:
        out = guarded_run(mod, doc['plan'], sched_values=doc['schedule'])
    sigs = _sig_set(out)
    ok = (doc['clause'], doc['signature']) in sigs
    same_digest = out.get('digest') == doc.get('log_digest')
    if not quiet:
        for v in out.get('violations', []):
            print('  %s [%s] %s' % (v['clause'], v['sig'], v['text']))
        print('replay: reproduced=%s digest_match=%s' % (ok, same_digest))
    return ok, same_digest, out


def verify_replay_fresh(path):
    """Replay in a fresh interpreter (other PYTHONHASHSEED)."""
    env = dict(os.environ)
    env['PYTHONHASHSEED'] = '12345'
    r = subprocess.run([PY, os.path.join(VERIF, 'dsim_main.py'), '--replay',
                        path, '--quiet'], env=env, capture_output=True,
                       text=True, timeout=600)
    # (how deep unbounded recursion gets before RecursionError depends on
    # how deep the caller's stack already is - pool worker or command line -
    # so the event log of such a run is reproduced up to that depth only)
    same = 'digest_match=True' in r.stdout or (
        'reproduced=True' in r.stdout and 'RecursionError' in r.stdout)
    return r.returncode == 1 and same, r.stdout + r.stderr


# ---------------------------------------------------------------------------
# determinism sample
# ---------------------------------------------------------------------------

def fresh_digests(pid, tier, verif_seed, indices):
    env = dict(os.environ)
    env['PYTHONHASHSEED'] = '777'
    r = subprocess.run([PY, os.path.join(VERIF, 'dsim_main.py'), '--digests',
                        pid, '--tier', tier, '--indices',
                        ','.join(map(str, indices))],
                       env=dict(env, VERIF_SEED=str(verif_seed)),
                       capture_output=True, text=True, timeout=600)
    if r.returncode != 0:
        return None, r.stdout + r.stderr
    return json.loads(r.stdout.strip().splitlines()[-1]), ''


# ---------------------------------------------------------------------------
# the check
# ---------------------------------------------------------------------------

def check(pid, tier='quick', verif_seed=0, workers=None, n_runs=None,
          budget_s=None, det_sample=6):
    t0 = time.time()
    mod = load_prop(pid)
    sizes = mod.SIZES
    n = n_runs or sizes[tier]
    if budget_s is None:
        budget_s = float(os.environ.get(
            'VERIF_BUDGET_S', 90 if tier == 'quick' else 1500))
    workers = workers or int(os.environ.get('VERIF_WORKERS',
                                            min(16, os.cpu_count() or 4)))
    deadline = t0 + budget_s
    todo = list(range(n))
    ctx = multiprocessing.get_context('fork')
    aggs = []
    harness_msgs = []
    rounds = 0
    while todo and rounds < 4:
        rounds += 1
        chunks = [todo[w::workers] for w in range(workers)]
        args = [(pid, tier, verif_seed, c, deadline, RUN_TIMEOUT_S * 4)
                for c in chunks if c]
        todo = []
        try:
            with cf.ProcessPoolExecutor(max_workers=workers,
                                        mp_context=ctx) as ex:
                futs = [ex.submit(_worker, a) for a in args]
                for f in futs:
                    try:
                        a = f.result(timeout=budget_s + 300)
                        aggs.append(a)
                        # runs a poisoned worker could not start
                        todo += a.get('unfinished', [])
                    except Exception as e:  # BrokenProcessPool, timeout
                        harness_msgs.append('worker failed: %r' % (e,))
        except Exception as e:
            harness_msgs.append('pool failed: %r' % (e,))
        if len([a for a in aggs if a.get('timeouts')]) >= 8:
            break       # the tree hangs everywhere: enough evidence
    tot = merge(aggs)
    status = EXIT_OK
    lines = []

    # determinism: same seeds again in-process and in a fresh interpreter
    det = {'seeds': 0, 'ok': True, 'fresh_ok': None}
    idx = [i for i in range(min(det_sample, n))]
    if idx and not harness_msgs and not tot['timeouts']:
        again = {}
        for i in idx:
            out = run_one(mod, tier, verif_seed, i)
            again[str(i)] = out.get('digest')
        det['seeds'] = len(idx)
        for i in idx:
            if str(i) in tot['digests'] and \
                    tot['digests'][str(i)] != again[str(i)]:
                det['ok'] = False
                harness_msgs.append('nondeterminism: run %d digest differs '
                                    'between worker and parent' % i)
        fresh, err = fresh_digests(pid, tier, verif_seed, idx)
        if fresh is None:
            det['fresh_ok'] = False
            harness_msgs.append('fresh-interpreter digest run failed: '
                                + err[-400:])
        else:
            det['fresh_ok'] = all(fresh.get(str(i)) == again[str(i)]
                                  for i in idx)
            if not det['fresh_ok']:
                harness_msgs.append('nondeterminism: digests differ in a '
                                    'fresh interpreter (PYTHONHASHSEED)')

    for h in tot['harness'][:5]:
        harness_msgs.append('run %s (seed %s) raised:\n%s'
                            % (h['i'], h['run_seed'], h['text']))

    # violations: known findings vs new
    known = load_known()
    known_hit = {}
    new = {}
    for v in tot['violating']:
        for viol in v['violations']:
            k = known_match(known, pid, viol['sig'])
            if k is not None:
                known_hit.setdefault(k['id'], (k, viol, v))
            else:
                new.setdefault((viol['clause'], viol['sig']), (viol, v))
    if os.environ.get('VERIF_SAVE_KNOWN'):
        # maintenance mode: (re)write the committed minimal replay of each
        # open finding that was reproduced
        for kid, (k, viol, v) in sorted(known_hit.items()):
            tgt = (viol['clause'], viol['sig'])
            try:
                mplan, msched, _ = minimise(mod, v['plan'], v['sched'], tgt,
                                            budget_s=20)
                out = replay_case(mod, mplan, msched)
                if tgt not in _sig_set(out):
                    mplan, msched = v['plan'], v['sched']
                    out = replay_case(mod, mplan, msched)
                out['violations'] = [x for x in out['violations'] if
                                     (x['clause'], x['sig']) == tgt]
                pth = write_replay(pid, v, mplan, msched, out, True)
                dst = os.path.join(VERIF, k.get('replay') or
                                   'findings/%s.json' % kid)
                os.makedirs(os.path.dirname(dst), exist_ok=True)
                __import__("shutil").move(pth, dst)
                lines.append('saved %s' % dst)
            except Exception as e:  # noqa
                lines.append('could not save %s: %r' % (kid, e))
    for kid, (k, viol, v) in sorted(known_hit.items()):
        lines.append('KNOWN-FINDING: property=%s %s [%s] (reproduced, run '
                     'seed %s)' % (pid, k.get('text', ''), k['id'],
                                   v['run_seed']))
    for k in known:
        if k.get('status') == 'open' and k.get('property') == pid and \
                k['id'] not in known_hit:
            lines.append('KNOWN-FINDING: property=%s %s [%s] (listed; not '
                         'triggered by this run\'s seeds)' % (
                             pid, k.get('text', ''), k['id']))
    reported = []
    counts = {}
    for v in tot['violating']:
        for viol in v['violations']:
            counts[(viol['clause'], viol['sig'])] = counts.get(
                (viol['clause'], viol['sig']), 0) + 1
    for key, n_ in sorted(counts.items()):
        lines.append('  signature %s [%s] x%d%s' % (
            key[0], key[1], n_, '' if key in new else ' (known)'))
    max_rep = int(os.environ.get('VERIF_MAX_REPORT', 8))
    for (clause, sig), (viol, v) in sorted(new.items())[:max_rep]:
        plan, sched = v['plan'], v['sched']
        minimised = False
        if clause == 'terminates':
            out = {'violations': [viol], 'digest': 'timeout'}
            path = write_replay(pid, v, plan, sched, out, False)
            ok, txt = verify_replay_fresh(path)
            if not ok:
                harness_msgs.append('replay %s (non-termination) did not '
                                    'reproduce in a fresh interpreter:\n%s'
                                    % (path, txt[-400:]))
                continue
            status = EXIT_VIOLATION
            lines.append('VIOLATION property=%s replay=%s' % (pid, path))
            lines.append('  clause=%s sig=%s' % (clause, sig))
            lines.append('  %s' % viol['text'][:400])
            continue
        try:
            mplan, msched, tries = minimise(
                mod, plan, sched, (clause, sig),
                budget_s=float(os.environ.get('VERIF_MIN_BUDGET_S', 25)))
            out = replay_case(mod, mplan, msched)
            if (clause, sig) in _sig_set(out):
                plan, sched, minimised = mplan, msched, True
            else:
                out = replay_case(mod, plan, sched)
        except Exception:
            out = replay_case(mod, plan, sched)
        if (clause, sig) not in _sig_set(out):
            harness_msgs.append('violation %s [%s] of run seed %s did not '
                                'reproduce in-process' % (clause, sig,
                                                          v['run_seed']))
            continue
        out['violations'] = [x for x in out['violations']
                             if (x['clause'], x['sig']) == (clause, sig)] + \
            [x for x in out['violations']
             if (x['clause'], x['sig']) != (clause, sig)]
        path = write_replay(pid, v, plan, sched, out, minimised)
        ok, txt = verify_replay_fresh(path)
        if not ok and minimised:
            # (state that the code under test keeps at class or module level
            # leaks from run to run inside a worker; a plan minimised there
            # may depend on it.  The plan as it was generated is tried too)
            out0 = replay_case(mod, v['plan'], v['sched'])
            if (clause, sig) in _sig_set(out0):
                path = write_replay(pid, v, v['plan'], v['sched'], out0,
                                    False)
                ok, txt = verify_replay_fresh(path)
        if not ok:
            harness_msgs.append('replay %s did not reproduce in a fresh '
                                'interpreter:\n%s' % (path, txt[-600:]))
            continue
        status = EXIT_VIOLATION
        reported.append(path)
        lines.append('VIOLATION property=%s replay=%s' % (pid, path))
        lines.append('  clause=%s sig=%s' % (clause, sig))
        lines.append('  %s' % viol['text'][:400])

    if tot['skipped']:
        lines.append('note: %d of %d planned runs skipped (wall budget)'
                     % (tot['skipped'], n))
    if tot['runs'] == 0:
        harness_msgs.append('no run executed')
    # sanity gate: probes that the property module says must be reached
    starved = [p for p in getattr(mod, 'REQUIRED_PROBES', {}).get(tier, [])
               if tot['probes'].get(p, 0) == 0]
    if starved and tot['runs'] >= n * 0.9:
        harness_msgs.append('starved probes (workload must change): %s'
                            % starved)
    wall = time.time() - t0
    write_evidence(mod, pid, tier, verif_seed, tot, det, wall,
                   len(new), sorted(known_hit), workers)
    for ln in lines:
        print(ln)
    print('%s %s: runs=%d nontrivial=%d distinct_schedules=%d states=%d '
          'sim_s=%.0f wall=%.1fs violations=%d known=%d'
          % (pid, tier, tot['runs'], tot['nontrivial'],
             len(tot['sched_digests']), len(tot['states']), tot['sim_s'],
             wall, len(new), len(known_hit)))
    if harness_msgs:
        for m in harness_msgs:
            print('HARNESS-ERROR: ' + m)
        if status == EXIT_OK:
            status = EXIT_HARNESS
    return status


def _shrink(obj, depth=0):
    """Samples are for a human reader: cut long strings and lists short."""
    if isinstance(obj, str):
        return obj if len(obj) <= 160 else obj[:120] + '...<%d chars>' % len(
            obj)
    if isinstance(obj, list):
        out = [_shrink(x, depth + 1) for x in obj[:24]]
        if len(obj) > 24:
            out.append('...<%d more>' % (len(obj) - 24))
        return out
    if isinstance(obj, dict):
        return {k: _shrink(v, depth + 1) for k, v in obj.items()}
    return obj


def write_evidence(mod, pid, tier, verif_seed, tot, det, wall, n_new,
                   known_ids, workers):
    os.makedirs(EVIDENCE_DIR, exist_ok=True)
    runs = max(1, tot['runs'])
    cov = {
        'evaluations': tot['runs'],
        'distinct_nontrivial': len(tot['sched_digests']),
        'distinct_measure': 'distinct full event-log digests (plan + '
                            'schedule + every observed event) among runs '
                            'that met the non-trivial rule',
        'rule': mod.RULE,
        'samples': _shrink(tot['samples']) or [
            {'note': 'no nontrivial run'}],
        'exhaustive': bool(getattr(mod, 'EXHAUSTIVE', {}).get(tier, False)),
        'runs_per_hour': int(tot['runs'] / max(wall, 1e-6) * 3600),
        'sim_seconds': round(tot['sim_s'], 3),
        'faults_fired': dict(sorted(tot['faults'].items())),
        'probes': dict(sorted(tot['probes'].items())),
        'abstract_states': len(tot['states']),
        'nontrivial_runs': tot['nontrivial'],
        'granularity': ('coop (yield points) + line (a share of the threaded runs, '
                        'sys.settrace)' if getattr(mod.gen, 'lines', False)
                        else 'coop (yield points)'),
        'worlds': getattr(mod, 'WORLDS', []),
        'components': getattr(mod, 'COMPONENTS', {}),
        'known_findings_reproduced': known_ids,
        'determinism_sample': det,
        'workers': workers,
        'leaked_threads': tot['leaked'],
        'skipped_runs': tot['skipped'],
    }
    cov.update(tot.get('extra', {}))
    if hasattr(mod, 'EXHAUSTIVE_SUBSPACE'):
        cov['exhaustive_subspace'] = mod.EXHAUSTIVE_SUBSPACE.get(tier)
    doc = {'property_id': pid, 'tier': tier, 'seed': int(verif_seed),
           'level': 'exploration', 'coverage': cov,
           'assumptions': getattr(mod, 'ASSUMPTIONS', []),
           'wall_s': round(wall, 2), 'violations': n_new}
    path = os.path.join(EVIDENCE_DIR, pid + '.json')
    tmp = path + '.tmp'
    with open(tmp, 'w') as f:
        json.dump(doc, f, indent=1, sort_keys=True, default=str)
    os.replace(tmp, path)

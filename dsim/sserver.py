"""ScriptedServer: a protocol-level Engine.IO v4 server driven by a script,
the peer of the real clients in the client-side checks (C08, C09).

It exposes the same client-facing surface as the real server worlds
(``http`` / ``ws_connect``), so the fake HTTP / WebSocket libraries of
clientworld.py work against either.
"""
import json
import urllib.parse

from . import refmodel as R
from .kernel import TICK
from .worlds import ServerWorld, _brief


class SSession:
    def __init__(self, sid, t, transport):
        self.sid = sid
        self.t_open = t
        self.transport = transport      # 'polling' | 'websocket'
        self.queue = []                 # packets waiting: (ptype, data)
        self.pending = None             # pending poll Request
        self.ws = None
        self.closed = False
        self.silent = False
        self.msgs_in = []               # (seq, t, via, value)
        self.pongs_in = []              # (seq, t, via, data)
        self.pings_out = []             # (seq, t, data)
        self.sent = []                  # (seq, t, chan, ptype, data)
        self.close_in = None
        self.ping_n = 0
        self.post_n = 0
        self.poll_n = 0
        self.upgrade_attempts = []
        self.last_in = t                # last time anything arrived
        self.t_silent = None


class ScriptedServerWorld(ServerWorld):
    impl = 'scripted'

    def __init__(self, k, script):
        self.k = k
        self.script = script or {}
        self.requests = []
        self.wsconns = []
        self.logs = []
        self.faults = {}
        self.probes = {}
        self.stopped = False
        self.sessions = {}
        self.order = []
        self.n_open = 0
        self.api_calls = []
        self.link_faults = list(self.script.get('link_faults', []))
        self.refuse_all = False

    def close(self):
        pass

    def _snap_all(self):
        return {}

    def peek(self, sid):
        return None

    # -- helpers -------------------------------------------------------------
    def _respond(self, req, status, body=b'', headers=None, delay=0.0):
        def go():
            req.status = status
            req.resp_headers = headers or [('Content-Type', 'text/plain')]
            req.resp_body = body
            self._finish_http(req)
        if delay:
            self.k.after(delay, go, 'ss.respond')
        else:
            go()

    def _encode(self, pkts):
        return R.ref_payload_encode(pkts).encode('utf-8')

    def _flush(self, s):
        """Hand queued packets to the client on the session's transport."""
        if s.silent or not s.queue:
            return
        if s.transport == 'websocket' and s.ws is not None:
            for (t, d) in s.queue:
                sq = self.k.ev('ss.ws.send', sid=s.sid, pt=t, d=_brief(d))
                s.sent.append((sq, self.k.now, 'ws', t, d))
                s.ws._s2c(('frame', R.ref_encode(t, d, False)))
            s.queue = []
        elif s.pending is not None:
            req, s.pending = s.pending, None
            # at most 16 packets per body: this package's clients refuse
            # larger payloads (finding K2, examined under C10)
            cap = self.script.get('burst_cap', 16)
            pk = s.queue[:cap]
            s.queue = s.queue[cap:]
            for (t, d) in pk:
                sq = self.k.ev('ss.poll.send', sid=s.sid, pt=t, d=_brief(d))
                s.sent.append((sq, self.k.now, 'poll', t, d))
            self._respond(req, 200, self._encode(pk))

    def push(self, s, pkts):
        if s.closed:
            return
        s.queue.extend(pkts)
        self._flush(s)

    def _schedule_ping(self, s, interval):
        def fire():
            if s.closed or s.silent:
                return
            data_list = self.script.get('ping', {}).get('data', [''])
            data = data_list[s.ping_n % len(data_list)]
            s.ping_n += 1
            sq = self.k.ev('ss.ping', sid=s.sid, d=data)
            s.pings_out.append((sq, self.k.now, data))
            self.push(s, [(R.PING, data)])
        if self.script.get('ping', {}).get('auto', True):
            self.k.after(interval, fire, 'ss.ping')

    def _timeline(self, s):
        for item in self.script.get('timeline', []):
            self.k.after(item['t'], lambda it=item: self._do(s, it),
                         'ss.timeline')

    def _do(self, s, item):
        if 'pkts' in item:
            self.push(s, [(p[0], R.spec_to_value(p[1]) if isinstance(
                p[1], dict) else p[1]) for p in item['pkts']])
            return
        what = item.get('do')
        self.k.ev('ss.do', sid=s.sid, what=what)
        if what == 'close':
            s.close_sent = (self.k.seq, self.k.now)
            self.push(s, [(R.CLOSE, None)])
            s.closed_by_script = True
        elif what == 'silence':
            s.silent = True
            s.t_silent = self.k.now
            self.fault('server_silent')
            if s.ws is not None:
                s.ws.blackhole()
        elif what == 'drop_ws':
            if s.ws is not None:
                self.fault('ws_drop')
                s.ws.drop()
                s.dropped = self.k.now
        elif what == 'refuse_all':
            self.refuse_all = True
            self.fault('server_gone')
        elif what == 'fail_posts':
            s.fail_posts = item.get('status', 500)
        elif what == 'noop':
            self.push(s, [(R.NOOP, None)])
        elif what == 'unknown_type':
            self.push(s, [(item.get('ptype', 7), 'x')])
        elif what == 'end_session':
            s.closed = True         # polls/posts now get 400, pings stop
            s.t_ended = self.k.now

    # -- HTTP ---------------------------------------------------------------------
    def _start_http(self, req):
        q = urllib.parse.parse_qs(req.query)
        sid = q.get('sid', [None])[0]
        if self.refuse_all:
            self._respond(req, None)
            return
        if sid is None:
            return self._open_polling(req, q)
        s = self.sessions.get(sid)
        if s is None or s.closed:
            self._respond(req, 400, b'"Invalid session"')
            return
        s.last_in = self.k.now
        if s.silent:
            return                      # never answered
        if req.method == 'GET':
            s.poll_n += 1
            if s.transport == 'websocket' or getattr(s, 'upgrading', False):
                self._respond(req, 200, self._encode([(R.NOOP, None)]))
                return
            if s.pending is not None:
                old, s.pending = s.pending, None
                self._respond(old, 200, self._encode([(R.NOOP, None)]))
            s.pending = req
            self._flush(s)
        elif req.method == 'POST':
            s.post_n += 1
            st = getattr(s, 'fail_posts', None)
            if st:
                if st == 'refuse':
                    self._respond(req, None)
                elif st == 'silent':
                    pass
                else:
                    self._respond(req, st, b'"failed"')
                return
            try:
                pkts = R.ref_payload_decode(req.body.decode('utf-8'), 10 ** 6)
            except (R.RefError, UnicodeDecodeError):
                self._respond(req, 400, b'"bad payload"')
                return
            for (t, d, cert) in pkts:
                self._incoming(s, t, d, 'post', req)
            self._respond(req, 200, b'ok')
        else:
            self._respond(req, 405, b'no')

    def _open_body(self, sid, o):
        info = {'sid': sid, 'upgrades': o.get('upgrades', []),
                'pingInterval': o.get('pingInterval', 2000),
                'pingTimeout': o.get('pingTimeout', 1000),
                'maxPayload': 1000000}
        return info

    def _open_polling(self, req, q):
        o = self.script.get('open', {})
        modes = o.get('modes')
        mode = o.get('mode', 'ok')
        if modes:
            mode = modes[min(self.n_open, len(modes) - 1)]
        self.n_open += 1
        req.open_mode = mode
        if mode == 'refuse':
            self._respond(req, None)
        elif mode == 'silent':
            pass
        elif mode == 'status':
            body = o.get('body', '"go away"')
            hdr = [('Content-Type', 'application/json' if o.get(
                'json_body', True) else 'text/plain')]
            self._respond(req, o.get('status', 401), body.encode(), hdr)
        elif mode == 'garbage':
            self._respond(req, 200, o.get('garbage', 'xyz').encode('utf-8'))
        elif mode == 'empty':
            self._respond(req, 200, b'')
        elif mode == 'non_open':
            self._respond(req, 200, b'4hello')
        elif mode == 'bad_utf8':
            self._respond(req, 200, b'\xff\xfe0{}')
        elif mode == 'missing_fields':
            self._respond(req, 200, b'0{"sid":"x"}')
        else:
            sid = 'S%03d' % len(self.sessions)
            s = SSession(sid, self.k.now, 'polling')
            self.sessions[sid] = s
            self.order.append(sid)
            info = self._open_body(sid, o)
            s.info = info
            pk = [(R.OPEN, info)] + [
                (p[0], R.spec_to_value(p[1]) if isinstance(p[1], dict)
                 else p[1]) for p in o.get('extra', [])]
            for (t, d) in pk:
                s.sent.append((self.k.seq, self.k.now, 'poll', t, d))
            self._respond(req, 200, self._encode(pk))
            self._schedule_ping(s, info['pingInterval'] / 1000.0)
            self._timeline(s)

    def _incoming(self, s, t, d, via, ref, raw=None):
        sq = self.k.ev('ss.in', sid=s.sid, pt=t, d=_brief(d), via=via)
        s.last_in = self.k.now
        if raw is not None:
            if not hasattr(s, 'raw_kinds'):
                s.raw_kinds = {}
            s.raw_kinds[sq] = isinstance(raw, (bytes, bytearray))
        if t == R.MESSAGE:
            s.msgs_in.append((sq, self.k.now, via, d))
        elif t == R.PONG:
            s.pongs_in.append((sq, self.k.now, via, d))
            self._schedule_ping(s, s.info['pingInterval'] / 1000.0)
        elif t == R.CLOSE:
            s.close_in = (sq, self.k.now, via)
            s.closed = True
            if s.pending is not None:
                old, s.pending = s.pending, None
                self._respond(old, 200, self._encode([(R.NOOP, None)]))

    # -- WebSocket ---------------------------------------------------------------
    def _start_ws(self, req):
        conn = req.ws
        q = urllib.parse.parse_qs(req.query)
        sid = q.get('sid', [None])[0]
        conn.ss_sid = sid
        if self.refuse_all:
            conn._s2c(('refuse', 0, b''))
            return
        if sid is None:
            o = self.script.get('ws_open', self.script.get('open', {}))
            modes = o.get('modes')
            mode = o.get('mode', 'ok')
            if modes:
                mode = modes[min(self.n_open, len(modes) - 1)]
            self.n_open += 1
            req.open_mode = mode
            if mode in ('refuse', 'status'):
                # 'refuse': the TCP connection is not even made (status 0);
                # 'status': an HTTP answer other than 101
                conn._s2c(('refuse', 0 if mode == 'refuse' else
                           o.get('status', 403), b''))
                return
            conn.accepted = True
            conn._s2c(('accept',))
            if mode == 'silent':
                return
            if mode == 'close':
                conn.server_closed = True
                conn._s2c(('close',))
                return
            if mode in ('garbage', 'empty', 'non_open', 'missing_fields',
                        'bad_utf8'):
                conn._s2c(('frame', {'garbage': 'xyz', 'empty': '',
                                     'non_open': '4hello',
                                     'bad_utf8': 'zz',
                                     'missing_fields': '0{"sid":"x"}'
                                     }[mode]))
                return
            sid = 'S%03d' % len(self.sessions)
            s = SSession(sid, self.k.now, 'websocket')
            s.ws = conn
            conn.ss_sid = sid
            self.sessions[sid] = s
            self.order.append(sid)
            info = self._open_body(sid, o)
            info['upgrades'] = []
            s.info = info
            s.sent.append((self.k.seq, self.k.now, 'ws', R.OPEN, info))
            conn._s2c(('frame', R.ref_encode(R.OPEN, info, False)))
            self._schedule_ping(s, info['pingInterval'] / 1000.0)
            self._timeline(s)
            return
        s = self.sessions.get(sid)
        probe = self.script.get('probe', 'right')
        if s is None or s.closed or probe == 'refuse':
            conn._s2c(('refuse', self.script.get('probe_status', 400)
                       if probe == 'refuse' else 400, b''))
            return
        s.upgrade_attempts.append({'conn': conn, 't': self.k.now,
                                   'frames': []})
        conn.accepted = True
        conn._s2c(('accept',))

    def _ws_wake_server(self, conn):
        while conn.server_inbox:
            item = conn.server_inbox.pop(0)
            if item[0] == 'close':
                conn.server_seen_close = True
                s = self.sessions.get(conn.ss_sid)
                if s is not None and s.ws is conn:
                    s.ws_closed_at = (self.k.seq, self.k.now)
                continue
            data = item[1]
            sq = self.k.ev('ss.ws.recv', wid=conn.wid, data=_brief(data))
            conn.recv_s.append((sq, self.k.now, data))
            s = self.sessions.get(conn.ss_sid)
            if s is None:
                continue
            if s.silent:
                continue
            if s.ws is conn:
                try:
                    t, d, cert = R.ref_decode(data)
                except R.RefError:
                    continue
                self._incoming(s, t, d, 'ws', conn, raw=data)
                if t == R.CLOSE:
                    conn.server_closed = True
                    conn._s2c(('close',))
                continue
            # upgrade handshake
            att = s.upgrade_attempts[-1] if s.upgrade_attempts else None
            if att is None or att['conn'] is not conn:
                continue
            att['frames'].append((sq, self.k.now, data))
            probe = self.script.get('probe', 'right')
            if data == '2probe' and len(att['frames']) == 1:
                if probe == 'right':
                    s.upgrading = True
                    conn._s2c(('frame', '3probe'))
                    att['ponged'] = (self.k.seq, self.k.now)
                    if s.pending is not None:
                        old, s.pending = s.pending, None
                        self._respond(old, 200,
                                      self._encode([(R.NOOP, None)]))
                elif probe == 'wrong':
                    conn._s2c(('frame', self.script.get('probe_reply',
                                                        '3nope')))
                elif probe == 'close':
                    conn.server_closed = True
                    conn._s2c(('close',))
                elif probe == 'right_drop':
                    # the right answer, and the connection is lost on its
                    # heels: the client's UPGRADE may or may not get out
                    conn._s2c(('frame', '3probe'))
                    att['dropped'] = (self.k.seq, self.k.now)
                    att['ponged'] = (self.k.seq, self.k.now)
                    s.upgrade_dropped = self.k.now
                    conn.server_closed = True
                    conn._s2c(('close',))
                # 'never': say nothing
            elif att.get('dropped'):
                pass
            elif data == '5' and att.get('ponged') and \
                    len(att['frames']) == 2:
                s.transport = 'websocket'
                s.upgrading = False
                s.ws = conn
                att['upgraded'] = (self.k.seq, self.k.now)
                self._flush(s)
            else:
                att['protocol_error'] = data

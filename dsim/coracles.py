"""Oracles for the client-side properties (C08, C09)."""
import urllib.parse

from . import refmodel as R
from .kernel import TICK
from .oracles import V, _short, _key
from . import oracles as _O

FAIL_MODES = ('refuse', 'status', 'garbage', 'empty', 'non_open', 'silent',
              'bad_utf8')


class CFacts:
    """Connections of one client object, derived from a CHistory."""

    def __init__(self, h):
        self.h = h
        self.kind = h.cw.kind
        self.app = h.cw.app
        self.ss = h.ss
        self.end = h.final['now']
        self.rt = h.plan['client'].get('request_timeout', 5)
        ops = self.app.ops
        # (a connect() on a client that is not disconnected is a usage
        # error answered with ValueError; it does not start a connection)
        self.connects = [o for o in ops if o['op']['op'] == 'connect' and
                         o['seq_start'] is not None and
                         o['state_before'] == 'disconnected']
        # open requests seen by the scripted server, in order
        self.opens = [r for r in self.ss.requests
                      if getattr(r, 'open_mode', None) is not None]
        self.conns = []
        evs = self.app.events
        for i, o in enumerate(self.connects):
            nxt = self.connects[i + 1]['seq_start'] \
                if i + 1 < len(self.connects) else float('inf')
            mine = [e for e in evs if o['seq_start'] <= e['seq'] < nxt]
            opens = [r for r in self.opens
                     if o['seq_start'] <= r.seq_issue < nxt]
            sess = None
            for e in mine:
                if e['ev'] == 'connect' and e['sid'] in self.ss.sessions:
                    sess = self.ss.sessions[e['sid']]
            self.conns.append({'op': o, 'events': mine, 'opens': opens,
                               'mode': opens[0].open_mode if opens else None,
                               'sess': sess, 'next_seq': nxt})


def _sig_kind(f):
    return f.kind


# ===========================================================================
# C08  lifecycle
# ===========================================================================

def check_lifecycle(h, f=None):
    f = f or CFacts(h)
    out = []
    kind = f.kind
    I = h.plan['sserver'].get('open', {}).get('pingInterval', 2000) / 1000.0
    T = h.plan['sserver'].get('open', {}).get('pingTimeout', 1000) / 1000.0
    rt = f.rt
    bound = I + T + 5 + rt + 1.0
    for n, c in enumerate(f.conns):
        o = c['op']
        mode = c['mode']
        if o['state_before'] != 'disconnected':
            # connect() while not disconnected is a usage error
            continue
        if o['seq_end'] is None:
            if o['t_start'] < f.end - (rt + 2.0) and mode != 'ok':
                out.append(V('connect-returns', '%s|connect-blocked|%s' % (
                    kind, mode), 'connect() started at t=%.4f (server '
                    'behaviour %s) had not returned at t=%.4f' % (
                        o['t_start'], mode, f.end)))
            continue
        n_conn = sum(1 for e in c['events'] if e['ev'] == 'connect')
        if _disconnect_during_connect(f, c):
            # disconnect() from inside the connect handler: judged as a
            # whole (the connection must simply end cleanly)
            fin = h.final
            last = c is f.conns[-1]
            nd = sum(1 for e in c['events'] if e['ev'] == 'disconnect')
            bad = []
            if n_conn != 1:
                bad.append('%d connect events' % n_conn)
            if nd != 1:
                bad.append('%d disconnect events' % nd)
            if last and (fin['state'] != 'disconnected' or
                         fin['sid'] is not None or
                         fin['in_connected_clients'] or fin['tasks_alive']):
                bad.append('final state=%r sid=%r listed=%r tasks=%r' % (
                    fin['state'], fin['sid'], fin['in_connected_clients'],
                    fin['tasks_alive']))
            if bad:
                out.append(V('disconnect-in-connect-handler',
                             '%s|disconnect-inside-connect-handler' % kind,
                             'disconnect() called before connect() returned '
                             '(from the connect handler or the handler of a '
                             'message in the OPEN reply): ' + '; '.join(bad)))
            continue
        if o['exc']:
            # -------- refused ---------------------------------------------------
            if mode == 'missing_fields':
                pass        # grey reply: any exception
            elif mode == 'ok' and c['sess'] is None and \
                    not o.get('exc_is_connection_error'):
                out.append(V('connect-error-type',
                             '%s|connect-raised-%s|%s' % (
                                 kind, o['exc_type'], mode),
                             'connect() raised %s' % o['exc']))
            elif mode in FAIL_MODES and \
                    not o.get('exc_is_connection_error'):
                out.append(V('connect-error-type',
                             '%s|connect-raised-%s|%s' % (
                                 kind, o['exc_type'], mode),
                             'server behaviour %r: connect() raised %s '
                             'instead of ConnectionError' % (mode,
                                                             o['exc'])))
            tainted = any(x['mode'] == 'missing_fields'
                          for x in f.conns[:n + 1])
            if o['state_after'] != 'disconnected' or \
                    (o['sid_after'] is not None and not tainted):
                out.append(V('failed-connect-clean',
                             '%s|failed-connect-left-state|%s|%s' % (
                                 kind, o['state_after'], mode),
                             'after the failed connect() (%s) state=%r '
                             'sid=%r' % (mode, o['state_after'],
                                         o['sid_after'])))
            if n_conn and c['sess'] is None:
                out.append(V('failed-connect-clean',
                             '%s|connect-event-on-failed-connect|%s' % (
                                 kind, mode),
                             'connect handler ran although connect() '
                             'raised %s' % o['exc']))
            # reusable: the next connect, if the server then behaves, works
            if n + 1 < len(f.conns):
                nx = f.conns[n + 1]
                if nx['mode'] == 'ok' and nx['op']['seq_end'] is not None \
                        and nx['op']['exc'] and \
                        nx['op']['state_before'] == 'disconnected' and \
                        'not in a disconnected state' in nx['op']['exc']:
                    out.append(V('reusable', '%s|not-reusable-after-%s' % (
                        kind, mode), 'connect() after a failed connect() '
                        'raised %s' % nx['op']['exc']))
            if c['sess'] is None:
                continue
        elif mode in FAIL_MODES and mode != 'silent' and c['sess'] is None:
            out.append(V('connect-error-type', '%s|connect-returned|%s' % (
                kind, mode), 'server behaviour %r but connect() returned '
                'normally' % mode))
            continue
        s = c['sess']
        if s is None:
            continue
        # -------- established ---------------------------------------------------
        if n_conn != 1:
            out.append(V('connect-once', '%s|connect-events-%d' % (kind,
                                                                   n_conn),
                         '%d connect events for one connection' % n_conn))
        ce = [e for e in c['events'] if e['ev'] == 'connect'][0]
        info = s.info
        if ce['sid'] != s.sid or \
                abs((ce['ping_interval'] or 0) - info['pingInterval'] /
                    1000.0) > 1e-9 or \
                abs((ce['ping_timeout'] or 0) - info['pingTimeout'] /
                    1000.0) > 1e-9:
            out.append(V('adopts-open', '%s|open-fields-not-adopted' % kind,
                         'OPEN announced sid=%s pingInterval=%s pingTimeout='
                         '%s; client has sid=%s ping_interval=%s '
                         'ping_timeout=%s' % (
                             s.sid, info['pingInterval'],
                             info['pingTimeout'], ce['sid'],
                             ce['ping_interval'], ce['ping_timeout'])))
        if not o['exc'] and o.get('transport_after') not in ('polling',
                                                              'websocket'):
            out.append(V('adopts-open', '%s|transport-unset' % kind,
                         'transport() is %r after connect()' %
                         o.get('transport_after')))
        discs = [e for e in c['events'] if e['ev'] == 'disconnect']
        causes = _client_causes(f, c, s)
        if len(discs) > 1:
            out.append(V('disconnect-once', '%s|double-disconnect|%s' % (
                kind, '+'.join(sorted({str(e['arg']) for e in discs}))),
                '%d disconnect events %r at %r' % (
                    len(discs), [e['arg'] for e in discs],
                    [e['t'] for e in discs])))
        if not discs:
            due = [cz for cz in causes if cz['t'] + bound < f.end and
                   not cz.get('optional')]
            if due:
                cz = min(due, key=lambda x: x['t'])
                out.append(V('disconnect-missing',
                             '%s|missing-disconnect|%s' % (kind,
                                                           cz['kind']),
                             'connection %s: %s at t=%.4f but no disconnect '
                             'event by t=%.4f (bound %.2f); state=%r '
                             'tasks=%r blocked=%r' % (
                                 s.sid, cz['kind'], cz['t'], f.end, bound,
                                 h.final['state'], h.final['tasks_alive'],
                                 h.final['blocked'][:3])))
            continue
        d = discs[0]
        occurred = [cz for cz in causes if cz['t'] <= d['t'] + _O.EPS]
        allowed = set()
        for cz in occurred:
            allowed |= cz['reasons']
        if not occurred:
            out.append(V('disconnect-cause', '%s|disconnect-without-cause|%s'
                         % (kind, d['arg']),
                         'connection %s: disconnect %r at t=%.4f but '
                         'nothing had ended it' % (s.sid, d['arg'],
                                                   d['t'])))
        elif d['arg'] not in allowed:
            out.append(V('disconnect-reason', '%s|wrong-reason|%s|causes=%s'
                         % (kind, d['arg'], '+'.join(sorted(
                             {cz['kind'] for cz in occurred}))),
                         'connection %s: reason %r; causes so far: %r' % (
                             s.sid, d['arg'],
                             [(cz['kind'], round(cz['t'], 4))
                              for cz in occurred])))
        else:
            first = min(occurred, key=lambda x: x['t'])
            margin = 24 * TICK + (_O.EPS - _O.EPS0)
            if first['binding'] and all(
                    x is first or x['t'] > first['t'] + margin
                    for x in causes) and d['arg'] not in first['reasons'] \
                    and d['t'] > first['t'] + margin:
                out.append(V('disconnect-reason',
                             '%s|not-first-cause|%s|first=%s' % (
                                 kind, d['arg'], first['kind']),
                             'connection %s: %s came first (t=%.4f) but '
                             'the reason is %r' % (s.sid, first['kind'],
                                                   first['t'], d['arg'])))
        # nothing after the disconnect event (until the next connect())
        later = [e for e in c['events'] if e['seq'] > d['seq'] and
                 e['ev'] != 'disconnect']
        late_msgs = [e for e in later if e['ev'] == 'message' and
                     e['t'] > d['t'] + _O.EPS and
                     e.get('spawn_seq', 0) > d['seq']]
        if late_msgs:
            out.append(V('after-disconnect', '%s|event-after-disconnect' %
                         kind, 'message event %r dispatched after the '
                         'disconnect event' % _short(late_msgs[0]['arg'])))
    # -------- final state -------------------------------------------------------
    last = f.conns[-1] if f.conns else None
    if last is not None:
        if any(_disconnect_during_connect(f, x) for x in f.conns):
            last = None         # judged above as a whole (and its leftovers
            #                     taint what comes after)
    if last is not None and last['sess'] is not None:
        discs = [e for e in last['events'] if e['ev'] == 'disconnect']
        if discs and discs[0]['t'] + rt + 8.0 + I + T < f.end:
            fin = h.final
            if fin['state'] != 'disconnected' or fin['sid'] is not None:
                out.append(V('clean-after-disconnect',
                             '%s|state-after-disconnect|%s' % (
                                 kind, fin['state']),
                             'after the disconnect event state=%r sid=%r' %
                             (fin['state'], fin['sid'])))
            if fin['tasks_alive']:
                out.append(V('clean-after-disconnect',
                             '%s|tasks-still-running|%s' % (
                                 kind, '+'.join(fin['tasks_alive'])),
                             'background tasks %r still running %.1f s '
                             'after the disconnect event (blocked: %r)' % (
                                 fin['tasks_alive'], f.end - discs[0]['t'],
                                 fin['blocked'][:3])))
            if fin['in_connected_clients']:
                out.append(V('clean-after-disconnect',
                             '%s|still-in-connected-clients' % kind,
                             'client still listed in connected_clients'))
    # wait() returns once the connection has ended
    for o in f.app.ops:
        if o['op']['op'] == 'wait' and o['seq_start'] is not None and \
                o['seq_end'] is None:
            ended = [e for e in f.app.events if e['ev'] == 'disconnect' and
                     e['seq'] > o['seq_start']]
            if ended and ended[0]['t'] + rt + 8.0 + I + T < f.end:
                out.append(V('wait-returns', '%s|wait-blocked' % kind,
                             'wait() called at t=%.4f never returned '
                             'although the connection ended at t=%.4f' % (
                                 o['t_start'], ended[0]['t'])))
    # send()/disconnect() while not connected are harmless
    for o in f.app.ops:
        if o['op']['op'] in ('send', 'disconnect') and \
                o['state_before'] == 'disconnected' and \
                o['seq_start'] is not None:
            if o['exc']:
                out.append(V('idle-calls-harmless', '%s|idle-%s-raised|%s' %
                             (kind, o['op']['op'], o['exc_type']),
                             '%s() on a disconnected client raised %s' % (
                                 o['op']['op'], o['exc'])))
            elif o['seq_end'] is None and o['t_start'] < f.end - 2.0:
                out.append(V('idle-calls-harmless', '%s|idle-%s-blocked' % (
                    kind, o['op']['op']), '%s() on a disconnected client '
                    'never returned' % o['op']['op']))
            ev = [e for e in f.app.events
                  if o['seq_start'] <= e['seq'] <= (o['seq_end'] or 0)]
            # (events that another call fired meanwhile - a connect() that
            # was under way in another thread - are not this call's)
            overlap = any(
                o2 is not o and o2['op']['op'] == 'connect' and
                o2['seq_start'] is not None and
                o2['seq_start'] <= (o['seq_end'] or 0) and
                (o2['seq_end'] is None or o2['seq_end'] >= o['seq_start'])
                for o2 in f.app.ops)
            if ev and o['seq_end'] is not None and not overlap:
                out.append(V('idle-calls-harmless', '%s|idle-%s-fired-%s' % (
                    kind, o['op']['op'], ev[0]['ev']),
                    '%s() on a disconnected client fired %s' % (
                        o['op']['op'], ev[0]['ev'])))
    return out


def _disconnect_during_connect(f, c):
    """The application called disconnect() before connect() had returned
    (from the connect handler, or from the handler of a message that came
    with the OPEN reply)."""
    end = c['op']['seq_end']
    for e in c['events']:
        if e['ev'] == 'disconnect' and e['arg'] == 'client disconnect' and \
                (end is None or e['seq'] < end):
            return True
    return False


def _client_causes(f, c, s):
    """What ended (or started to end) this connection, with the reason the
    client must then report."""
    out = []
    lo, hi = c['op']['seq_start'], c['next_seq']
    for o in f.app.ops:
        if o['op']['op'] == 'disconnect' and o['seq_start'] is not None and \
                lo <= o['seq_start'] < hi and \
                o['state_before'] == 'connected':
            out.append({'kind': 'app_disconnect', 't': o['t_start'],
                        'reasons': {'client disconnect'}, 'binding': True})
    for e in c['events']:
        a = f.app.action_for(e['ev'], e['n'])
        if a and a.get('action') == 'disconnect' and \
                e['state'] == 'connected':
            out.append({'kind': 'app_disconnect', 't': e['t'],
                        'reasons': {'client disconnect'}, 'binding': True})
    for (sq, t, chan, pt, d) in s.sent:
        if pt == R.CLOSE:
            out.append({'kind': 'server_close', 't': t,
                        'reasons': {'server disconnect'}, 'binding': True})
    terr = {'transport error'}
    if s.t_silent is not None:
        out.append({'kind': 'silence', 't': s.t_silent, 'reasons': terr,
                    'binding': False})
    if getattr(s, 't_ended', None) is not None:
        out.append({'kind': 'server_forgot_session', 't': s.t_ended,
                    'reasons': terr, 'binding': False})
    if getattr(s, 'dropped', None) is not None:
        out.append({'kind': 'ws_drop', 't': s.dropped, 'reasons': terr,
                    'binding': False})
    if getattr(s, 'upgrade_dropped', None) is not None:
        # the upgrade socket was lost right behind the probe answer: a
        # client whose UPGRADE went into it is on a dead WebSocket, one
        # whose write failed stays on polling
        out.append({'kind': 'upgrade_socket_lost', 't': s.upgrade_dropped,
                    'reasons': terr, 'binding': False, 'optional': True})
    for r in f.ss.requests:
        if ('sid=' + s.sid) in r.query and r.seq_done is not None and \
                r.status is None:
            # the server closed the connection without answering
            out.append({'kind': 'request_refused', 't': r.t_done,
                        'reasons': terr, 'binding': False})
    for conn in f.ss.wsconns:
        if getattr(conn, 'ss_sid', None) == s.sid and \
                conn.state == 'refused':
            pass        # a refused upgrade does not end the connection
    for r in f.ss.requests:
        if r.kind == 'http' and ('sid=' + s.sid) in r.query and \
                r.status is not None and not (200 <= r.status < 300):
            out.append({'kind': 'http_%s' % r.status, 't': r.t_done or 0,
                        'reasons': terr, 'binding': False})
        if getattr(r, 'client_gave_up', None) is not None and \
                ('sid=' + s.sid) in r.query:
            out.append({'kind': 'request_timeout', 't': r.client_gave_up,
                        'reasons': terr, 'binding': False})
    for conn in f.ss.wsconns:
        if getattr(conn, 'ss_sid', None) == s.sid and s.ws is conn:
            if conn.server_closed or conn.state == 'closed':
                out.append({'kind': 'ws_closed', 't': conn.t_closed_c or
                            s.t_open, 'reasons': terr, 'binding': False})
    # undecodable / oversize things the server script sent
    for (sq, t, chan, pt, d) in s.sent:
        if pt not in (0, 1, 2, 3, 4, 5, 6):
            pass
    bursts = {}
    for (sq, t, chan, pt, d) in s.sent:
        if chan == 'poll':
            bursts[sq] = bursts.get(sq, 0) + 1
    return out


# ===========================================================================
# C09  protocol conduct
# ===========================================================================

def check_conduct(h, f=None):
    f = f or CFacts(h)
    out = []
    kind = f.kind
    rt = f.rt
    for c in f.conns:
        s = c['sess']
        if s is None:
            continue
        I = s.info['pingInterval'] / 1000.0
        T = s.info['pingTimeout'] / 1000.0
        discs = [e for e in c['events'] if e['ev'] == 'disconnect']
        t_end = discs[0]['t'] if discs else f.end
        troubled = s.silent or getattr(s, 'fail_posts', None) or \
            f.ss.refuse_all or getattr(s, 'dropped', None) is not None or \
            getattr(s, 'upgrade_dropped', None) is not None
        # ---- PONG echo -----------------------------------------------------------
        pongs = list(s.pongs_in)
        if len(pongs) > len(s.pings_out):
            out.append(V('pong-echo', '%s|more-pongs-than-pings' % kind,
                         '%d PONGs for %d PINGs' % (len(pongs),
                                                    len(s.pings_out))))
        for i, (sq, t, data) in enumerate(s.pings_out):
            if i < len(pongs):
                # compared on the wire: what the server sent after the '2'
                # must come back after the '3'
                wire = R.ref_encode(R.PONG, pongs[i][3], True)[1:]
                if wire != data:
                    out.append(V('pong-echo', '%s|pong-data-differs|%s' % (
                        kind, 'json-lookalike' if R.classify_text(data)[0]
                        in ('json', 'grey') else 'plain-text'),
                        'PING data %r was answered with PONG data %r' % (
                            data, wire)))
                    break
            elif not troubled and t + rt + 2.0 < t_end and \
                    not s.closed and not discs:
                out.append(V('pong-echo', '%s|ping-unanswered' % kind,
                             'PING %r sent at t=%.4f got no PONG by '
                             't=%.4f' % (data, t, t_end)))
                break
        # ---- server -> client messages -------------------------------------------
        served = [(sq, t, chan, d) for (sq, t, chan, pt, d) in s.sent
                  if pt == R.MESSAGE]
        got = [e for e in c['events'] if e['ev'] == 'message']
        used = [False] * len(got)
        order = []
        for (sq, t, chan, d) in served:
            hit = [i for i, e in enumerate(got)
                   if not used[i] and R.same_value(e['arg'], d)]
            if hit:
                used[hit[0]] = True
                order.append(got[hit[0]])
            else:
                # lost?  only if the connection lived on and was healthy
                if not troubled and t + rt + 2.0 < t_end and \
                        not _burst_too_big(s, sq):
                    loose = [e for e in got if str(e['arg']) == str(d)]
                    out.append(V('message-delivery',
                                 '%s|%s|%s' % (kind, 'changed-payload'
                                               if loose else
                                               'message-not-delivered',
                                               chan),
                                 'server sent MESSAGE %r at t=%.4f on %s; '
                                 'the handler %s' % (
                                     _short(d), t, chan,
                                     'got %r' % _short(loose[0]['arg'])
                                     if loose else 'never saw it')))
                    break
        for i, e in enumerate(got):
            if not used[i]:
                out.append(V('message-delivery', '%s|spurious-or-duplicate-'
                             'message' % kind, 'message handler got %r, '
                             'which the server did not send (again)' %
                             _short(e['arg'])))
                break
        keys = [e.get('spawn_seq') or e['seq'] for e in order]
        if keys != sorted(keys):
            out.append(V('message-order', '%s|handlers-dispatched-out-of-'
                         'order' % kind, 'message handlers were dispatched '
                         'in an order different from arrival: %r' % keys))
        # ---- client -> server messages -------------------------------------------
        sends = [o for o in f.app.ops if o['op']['op'] == 'send' and
                 o['seq_start'] is not None and
                 c['op']['seq_start'] <= o['seq_start'] < c['next_seq']]
        arrived = list(s.msgs_in)
        used2 = [False] * len(arrived)
        pos = []
        for o in sends:
            val = R.spec_to_value(o['op']['data'])
            hit = [i for i, m in enumerate(arrived)
                   if not used2[i] and R.same_value(m[3], val)]
            connected = o['state_before'] == 'connected'
            if hit:
                used2[hit[0]] = True
                pos.append((o['seq_start'], hit[0]))
                m = arrived[hit[0]]
                if isinstance(val, (bytes, bytearray)) and m[2] == 'ws' and \
                        not getattr(s, 'raw_kinds', {}).get(m[0], True):
                    out.append(V('binary-framing', '%s|binary-as-text-frame'
                                 % kind, 'binary payload travelled as a '
                                 'text frame on WebSocket'))
            elif connected and not troubled and not discs and \
                    o['t_start'] + rt + 2.0 < t_end and \
                    not _app_disconnect_soon(f, c, o):
                out.append(V('send-delivery', '%s|send-not-delivered|%s' % (
                    kind, s.transport), 'send(%r) at t=%.4f on a healthy '
                    'connection never reached the server (transport %s)' % (
                        _short(val), o['t_start'], s.transport)))
                break
        for i, m in enumerate(arrived):
            if not used2[i] and not (isinstance(m[3], str) and
                                     m[3] == 'from-handler'):
                out.append(V('send-delivery', '%s|duplicate-or-spurious-send'
                             % kind, 'server received MESSAGE %r which the '
                             'application did not send (again)' %
                             _short(m[3])))
                break
        # what a handler sent (connect handlers greet) travels like any
        # other send
        hsends = [e for e in c['events']
                  if (f.app.action_for(e['ev'], e['n']) or {}).get(
                      'action') == 'send' and e.get('state') == 'connected']
        n_arr = sum(1 for m in arrived
                    if isinstance(m[3], str) and m[3] == 'from-handler')
        if n_arr > len(hsends):
            out.append(V('send-delivery', '%s|duplicate-or-spurious-send'
                         % kind, 'server received %d handler sends, the '
                         'handlers made %d' % (n_arr, len(hsends))))
        elif n_arr < len(hsends) and not troubled and not discs and \
                all(e['t'] + rt + 2.0 < t_end for e in hsends) and \
                not any(_app_disconnect_soon(f, c, {'seq_start': e['seq'],
                                                    't_start': e['t']})
                        for e in hsends):
            out.append(V('send-delivery', '%s|handler-send-not-delivered|%s'
                         % (kind, s.transport), '%d send(s) made from '
                         'handlers (first in the %s handler at t=%.4f) on a '
                         'healthy connection, %d reached the server' % (
                             len(hsends), hsends[0]['ev'], hsends[0]['t'],
                             n_arr)))
        ordered = [p for p in pos]
        if [x[1] for x in ordered] != sorted(x[1] for x in ordered):
            # sends issued on different ticks have a binding order
            ts = {o['seq_start']: o['t_start'] for o in sends}
            seqs = [x[0] for x in sorted(ordered, key=lambda x: x[1])]
            tt = [ts[q] for q in seqs]
            if any(tt[i] > tt[i + 1] + _O.EPS for i in range(len(tt) - 1)):
                out.append(V('send-order', '%s|sends-reordered' % kind,
                             'application sends arrived out of order'))
        # ---- upgrade only via the probe handshake --------------------------------
        out.extend(_check_client_upgrade(f, c, s))
        # ---- silence detection ----------------------------------------------------
        if s.t_silent is not None and not discs:
            grace = 5.0
            deadline = s.t_silent + I + T + grace + rt + 1.0 + \
                (_O.EPS - _O.EPS0)
            # the client measures from the last thing it received
            if deadline < f.end:
                out.append(V('silence-detected', '%s|silence-not-detected|%s'
                             % (kind, s.transport),
                             'server silent since t=%.4f (I=%.4g T=%.4g, '
                             'request_timeout %s): no disconnect by t=%.4f'
                             % (s.t_silent, I, T, rt, f.end)))
    out.extend(_check_urls(f))
    return out


def _is_number(text):
    try:
        float(text)
        return True
    except ValueError:
        return False


def _burst_too_big(s, sq, limit=16):
    """Was this packet part of a poll response of more than ``limit``
    packets?  (known finding K2, listed under C10)"""
    n = sum(1 for (q, t, chan, pt, d) in s.sent if chan == 'poll' and
            abs(q - sq) <= 64)
    same = [x for x in s.sent if x[2] == 'poll' and x[1] == next(
        (y[1] for y in s.sent if y[0] == sq), None)]
    return len(same) > limit


def _app_disconnect_soon(f, c, o):
    for d in f.app.ops:
        if d['op']['op'] == 'disconnect' and d['seq_start'] is not None \
                and d['seq_start'] >= o['seq_start'] and \
                d['t_start'] < o['t_start'] + f.rt + 2.0:
            return True
    for e in c['events']:
        a = f.app.action_for(e['ev'], e['n'])
        if a and a.get('action') == 'disconnect':
            return True
    return False


def _check_client_upgrade(f, c, s):
    out = []
    kind = f.kind
    o = c['op']
    tr = [e['transport'] for e in c['events']] + [o.get('transport_after')]
    first = (o['op'].get('transports') or ['polling'])[0]
    became_ws = 'websocket' in tr
    if first == 'polling' and became_ws:
        ok = False
        for att in s.upgrade_attempts:
            fr = [d for (_s, _t, d) in att['frames']]
            if fr[:2] == ['2probe', '5'] and att.get('ponged'):
                ok = True
            if fr[:1] == ['2probe'] and att.get('dropped'):
                # the probe was answered and the connection lost at once:
                # an UPGRADE written into the dying socket counts as sent
                ok = True
        if not ok:
            out.append(V('upgrade-handshake', '%s|upgraded-without-handshake'
                         % kind, 'client switched to websocket; upgrade '
                         'sockets carried %r' % [
                             [d for (_s, _t, d) in a['frames']]
                             for a in s.upgrade_attempts]))
    for att in s.upgrade_attempts:
        fr = [d for (_s, _t, d) in att['frames']]
        if fr and fr[0] != '2probe':
            out.append(V('upgrade-handshake', '%s|first-upgrade-frame|%s' % (
                kind, fr[0][:8]), 'first frame on the upgrade socket was '
                '%r' % fr[0]))
        if '5' in fr and not att.get('ponged'):
            out.append(V('upgrade-handshake', '%s|upgrade-without-pong' %
                         kind, 'client sent UPGRADE although the server '
                         'never answered the probe correctly (frames %r)' %
                         fr))
    return out


def _check_urls(f):
    out = []
    kind = f.kind
    for c in f.conns:
        o = c['op']['op']
        url = o['url']
        u = urllib.parse.urlsplit(url)
        ep = (o.get('engineio_path') or 'engine.io').strip('/')
        secure = u.scheme in ('https', 'wss')
        lo, hi = c['op']['seq_start'], c['next_seq']
        for r in f.ss.requests:
            if r.seq_issue is None or not (lo <= r.seq_issue < hi):
                continue
            ru = getattr(r, 'url', None)
            if ru is None:
                continue
            x = urllib.parse.urlsplit(ru)
            want_scheme = ('ws' if r.kind == 'ws' else 'http') + (
                's' if secure else '')
            problems = []
            if x.scheme != want_scheme:
                problems.append('scheme %s (want %s)' % (x.scheme,
                                                         want_scheme))
            if x.netloc != u.netloc:
                problems.append('netloc %s (want %s)' % (x.netloc,
                                                         u.netloc))
            if x.path != '/' + ep + '/':
                problems.append('path %s (want /%s/)' % (x.path, ep))
            q = x.query
            prefix = u.query + '&' if u.query else ''
            tr = 'websocket' if r.kind == 'ws' else 'polling'
            base = prefix + 'transport=%s&EIO=4' % tr
            if not q.startswith(base):
                problems.append('query %r does not start with %r' % (q,
                                                                      base))
            else:
                rest = urllib.parse.parse_qs(q[len(base):])
                if set(rest) - {'sid', 't'}:
                    problems.append('unexpected parameters %r' %
                                    sorted(rest))
            if problems:
                out.append(V('request-url', '%s|bad-url|%s' % (
                    kind, problems[0].split(' ')[0]),
                    'connect(%r, engineio_path=%r): request %s %s: %s' % (
                        url, o.get('engineio_path'), r.method, ru,
                        '; '.join(problems))))
                return out
    return out

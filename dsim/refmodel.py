"""Small executable reference models used as oracles.

Written from the Engine.IO v4 protocol description and the property
statements, not from the package's code.  Shares only ``json``, ``base64``,
``gzip``/``zlib`` and ``urllib`` from the standard library with it.
"""
import base64
import binascii
import gzip
import json
import re
import urllib.parse
import zlib

OPEN, CLOSE, PING, PONG, MESSAGE, UPGRADE, NOOP = range(7)
SEP = '\x1e'


class RefError(Exception):
    pass


GREY = object()   # "the statement does not decide this case"


# ---------------------------------------------------------------------------
# packet codec
# ---------------------------------------------------------------------------

def ref_encode(ptype, data, b64):
    """Engine.IO v4 wire form of one packet on a text-only (b64=True) or a
    binary-capable (b64=False) channel."""
    if isinstance(data, (bytes, bytearray)):
        if ptype != MESSAGE:
            raise RefError('binary only for MESSAGE')
        if b64:
            return 'b' + base64.b64encode(bytes(data)).decode('ascii')
        return bytes(data)
    out = str(ptype)
    if isinstance(data, str):
        out += data
    elif isinstance(data, (dict, list)):
        out += json.dumps(data, separators=(',', ':'))
    elif data is not None:
        out += str(data)
    return out


_INT_RE = re.compile(r'^\s*-?\d+\s*$')


def classify_text(text):
    """What a decoded text payload must come back as.

    Returns ('text', text) | ('json', value) | ('grey', [candidates]).
    """
    if text == '':
        return ('text', '')
    try:
        v = json.loads(text)
    except ValueError:
        return ('text', text)
    except RecursionError:
        return ('grey', None)
    if isinstance(v, bool):
        return ('text', text)
    if isinstance(v, int):
        return ('text', text)
    if isinstance(v, float) and (v != v or v in (float('inf'),
                                                 float('-inf'))):
        # NaN / Infinity are not JSON literals, and overflowing exponents
        # are; the statement does not separate them
        return ('grey', None)
    if isinstance(v, (dict, list)) and _has_big_int(text):
        # arrays/objects holding > 100-digit integers: grey
        return ('grey', None)
    if isinstance(v, (dict, list)) and _has_nonfinite(v):
        return ('grey', None)
    return ('json', v)


def _has_big_int(text):
    return re.search(r'\d{101,}', text) is not None


def _has_nonfinite(v):
    if isinstance(v, float):
        return v != v or v in (float('inf'), float('-inf'))
    if isinstance(v, list):
        return any(_has_nonfinite(x) for x in v)
    if isinstance(v, dict):
        return any(_has_nonfinite(x) for x in v.values())
    return False


def ref_decode(enc):
    """Decode one packet: returns (ptype, data, certainty) where certainty is
    'exact' or 'grey' (data then holds the text form)."""
    if isinstance(enc, (bytes, bytearray)):
        return (MESSAGE, bytes(enc), 'exact')
    if enc == '':
        raise RefError('empty packet')
    if enc[0] == 'b':
        try:
            return (MESSAGE, base64.b64decode(enc[1:]), 'exact')
        except (binascii.Error, ValueError) as e:
            raise RefError('bad base64: %s' % e)
    c = enc[0]
    if not ('0' <= c <= '9'):
        if c.isdigit():
            return (None, enc[1:], 'grey')      # non-ASCII digit
        raise RefError('bad type character %r' % c)
    kind, val = classify_text(enc[1:])
    if kind == 'grey':
        return (int(c), enc[1:], 'grey')
    return (int(c), val, 'exact')


def same_value(a, b):
    """Equality by value *and* Python type (1 != 1.0 != True, 'a' != b'a')."""
    if type(a) is not type(b):
        if isinstance(a, (bytes, bytearray)) and \
                isinstance(b, (bytes, bytearray)):
            return bytes(a) == bytes(b)
        return False
    if isinstance(a, float):
        return a == b or (a != a and b != b)
    if isinstance(a, list):
        return len(a) == len(b) and all(same_value(x, y)
                                        for x, y in zip(a, b))
    if isinstance(a, dict):
        return a.keys() == b.keys() and all(same_value(a[k], b[k])
                                            for k in a)
    return a == b


# ---------------------------------------------------------------------------
# payload framing
# ---------------------------------------------------------------------------

def ref_payload_encode(packets):
    """packets: list of (ptype, data)."""
    return SEP.join(ref_encode(t, d, True) for t, d in packets)


def ref_payload_split(body):
    """Undo the optional 'd=' form and split at separators."""
    if body == '':
        return []
    if body.startswith('d='):
        qs = urllib.parse.parse_qs(body)
        if 'd' not in qs:
            raise RefError('d= form without value')
        body = qs['d'][0]
    return body.split(SEP)


def ref_payload_decode(body, limit=16):
    """Returns list of (ptype, data, certainty); raises RefError when the
    body as a whole must be refused."""
    parts = ref_payload_split(body)
    if len(parts) > limit:
        raise RefError('too many packets')
    return [ref_decode(p) for p in parts]


# ---------------------------------------------------------------------------
# what a browser does with a polling response
# ---------------------------------------------------------------------------

_JSONP_RE = re.compile(r'^___eio\[(-?\d+)\]\((.*)\);$', re.S)
_LINE_TERMINATORS = '\n\r'          # U+2028/9 are legal in literals (ES2019)
_SIMPLE_ESC = {'b': '\b', 'f': '\f', 'n': '\n', 'r': '\r', 't': '\t',
               'v': '\v', '0': '\0', '"': '"', "'": "'", '\\': '\\'}


def js_eval_string_literal(src):
    """Evaluate one complete double-quoted ECMAScript string literal.
    Raises RefError if ``src`` is not exactly one such literal."""
    if len(src) < 2 or src[0] != '"':
        raise RefError('not a string literal')
    out = []
    i = 1
    n = len(src)
    while True:
        if i >= n:
            raise RefError('unterminated string literal')
        ch = src[i]
        if ch == '"':
            if i != n - 1:
                raise RefError('string literal ends early at %d of %d'
                               % (i, n))
            return ''.join(out)
        if ch in _LINE_TERMINATORS:
            raise RefError('raw line terminator inside string literal')
        if ch != '\\':
            out.append(ch)
            i += 1
            continue
        i += 1
        if i >= n:
            raise RefError('dangling backslash')
        e = src[i]
        if e in _SIMPLE_ESC:
            if e == '0' and i + 1 < n and src[i + 1].isdigit():
                raise RefError('octal escape')
            out.append(_SIMPLE_ESC[e])
            i += 1
        elif e == 'x':
            h = src[i + 1:i + 3]
            if len(h) != 2 or not all(c in '0123456789abcdefABCDEF'
                                      for c in h):
                raise RefError('bad \\x escape')
            out.append(chr(int(h, 16)))
            i += 3
        elif e == 'u':
            if i + 1 < n and src[i + 1] == '{':
                j = src.find('}', i)
                if j < 0:
                    raise RefError('bad \\u{ escape')
                try:
                    out.append(chr(int(src[i + 2:j], 16)))
                except ValueError:
                    raise RefError('bad \\u{ escape')
                i = j + 1
            else:
                h = src[i + 1:i + 5]
                if len(h) != 4 or not all(c in '0123456789abcdefABCDEF'
                                          for c in h):
                    raise RefError('bad \\u escape')
                out.append(chr(int(h, 16)))
                i += 5
        elif e in '\n\u2028\u2029':
            i += 1                    # line continuation
        elif e == '\r':
            i += 1
            if i < n and src[i] == '\n':
                i += 1
        elif e in '123456789':
            raise RefError('legacy octal / \\8 \\9 escape')
        else:
            out.append(e)
            i += 1


def _join_surrogates(s):
    # a JS string is UTF-16; \\uD83D\\uDE00 means one astral character
    try:
        return s.encode('utf-16', 'surrogatepass').decode('utf-16')
    except UnicodeError:
        return s


def browser_decode(status, headers, body, jsonp_index=None):
    """Turn an HTTP polling response into the payload *text* the way a
    browser would: undo the declared Content-Encoding only, decode UTF-8,
    and for JSONP evaluate the single call statement.  Raises RefError."""
    enc = None
    ctype = None
    for k, v in headers or []:
        if k.lower() == 'content-encoding':
            enc = v.strip().lower()
        if k.lower() == 'content-type':
            ctype = v
    raw = body
    if enc == 'gzip':
        try:
            raw = gzip.decompress(body)
        except Exception as e:
            raise RefError('declared gzip but not gzip: %s' % e)
    elif enc == 'deflate':
        try:
            raw = zlib.decompress(body)
        except Exception as e:
            raise RefError('declared deflate but not deflate: %s' % e)
    elif enc not in (None, 'identity'):
        raise RefError('unknown content-encoding %r' % enc)
    try:
        text = raw.decode('utf-8')
    except UnicodeDecodeError as e:
        raise RefError('body is not UTF-8 (undeclared compression?): %s' % e)
    if jsonp_index is None:
        return text
    m = _JSONP_RE.match(text)
    if not m:
        raise RefError('JSONP body is not one ___eio[n](...); call: %r'
                       % text[:60])
    if int(m.group(1)) != jsonp_index:
        raise RefError('JSONP index %s != %s' % (m.group(1), jsonp_index))
    return _join_surrogates(js_eval_string_literal(m.group(2)))


def offered_encodings(accept_encoding):
    """RFC 9110 reading of Accept-Encoding: the set of codings the request
    offered (token present with q > 0).  '*' is reported as '*'."""
    out = set()
    if not accept_encoding:
        return out
    for part in accept_encoding.split(','):
        bits = [b.strip() for b in part.split(';')]
        token = bits[0].lower()
        if not token:
            continue
        q = 1.0
        for b in bits[1:]:
            if b.lower().startswith('q='):
                try:
                    q = float(b[2:])
                except ValueError:
                    q = 1.0
        if q > 0:
            out.add(token)
    return out


# ---------------------------------------------------------------------------
# payload specs used inside plans (JSON-able <-> python values)
# ---------------------------------------------------------------------------

def spec_to_value(spec):
    k = spec['k']
    if k == 's':
        return spec['v']
    if k == 'b':
        return bytes.fromhex(spec['v'])
    if k == 'ba':
        return bytearray(bytes.fromhex(spec['v']))
    if k == 'j':
        return spec['v']
    if k == 'n':
        return None
    raise ValueError(k)


def value_to_spec(v):
    if isinstance(v, str):
        return {'k': 's', 'v': v}
    if isinstance(v, bytearray):
        return {'k': 'ba', 'v': bytes(v).hex()}
    if isinstance(v, bytes):
        return {'k': 'b', 'v': v.hex()}
    if v is None:
        return {'k': 'n'}
    return {'k': 'j', 'v': v}

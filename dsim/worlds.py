"""Server worlds: the real engineio servers behind their real gateway
middlewares, driven through in-process WSGI / ASGI gateway actors.

ThreadedServerWorld : engineio.Server(async_mode='threading') + WSGIApp
AsyncServerWorld    : engineio.AsyncServer(async_mode='asgi') + ASGIApp

Both expose the same client-facing surface (``http`` and ``ws_connect``) so
that one ScriptedClient drives either.
"""
import asyncio
import io
import logging
import os
import random
import sys

from . import kernel as K

REPO_SRC = os.environ.get('VERIF_REPO_SRC', '/repo/src')
if REPO_SRC not in sys.path:
    sys.path.insert(0, REPO_SRC)

import engineio  # noqa: E402
import engineio.async_drivers.threading as _thr_driver  # noqa: E402
import engineio.async_drivers._websocket_wsgi as _ws_wsgi  # noqa: E402
import engineio.async_drivers.asgi as _asgi_driver  # noqa: E402
import engineio.socket as _eio_socket  # noqa: E402
import engineio.async_socket as _eio_async_socket  # noqa: E402
import engineio.base_server as _eio_base_server  # noqa: E402
from engineio import payload as _eio_payload  # noqa: E402
from engineio import packet as _eio_packet  # noqa: E402

assert os.path.realpath(engineio.__file__).startswith(
    os.path.realpath(REPO_SRC)), (engineio.__file__, REPO_SRC)


class CaptureLogger:
    """Non-printing logger; records become part of the history."""

    def __init__(self, kernel, sink):
        self.k = kernel
        self.sink = sink
        self.level = logging.INFO

    def _rec(self, lvl, msg, args, exc=False):
        if self.k.killing:
            return
        try:
            text = msg % args if args else msg
        except Exception:
            text = str(msg)
        e = None
        if exc:
            ei = sys.exc_info()
            if ei[0] is not None:
                e = '%s: %s' % (ei[0].__name__, ei[1])
        self.sink.append((self.k.seq, self.k.now, lvl, text, e))

    def info(self, msg, *args, **kw):
        pass   # too chatty; not needed by any oracle

    def debug(self, msg, *args, **kw):
        pass

    def warning(self, msg, *args, **kw):
        self._rec('warning', msg, args)

    def error(self, msg, *args, **kw):
        self._rec('error', msg, args)

    def exception(self, msg, *args, **kw):
        self._rec('exception', msg, args, exc=True)

    def setLevel(self, lvl):
        pass

    def addHandler(self, h):
        pass


class FakeSecrets:
    """Stands in for the ``secrets`` module behind engineio.base_server."""

    def __init__(self, mode='prng', seed=0):
        self.mode = mode
        self.rng = random.Random(seed)
        self.requests = []      # sizes asked for
        self.handed = []        # bytes handed out (last 4096 kept)
        self.count = 0

    def token_bytes(self, n=32):
        self.requests.append(n)
        self.count += 1
        self.last_n = n
        if self.mode == 'const':
            b = b'\x00' * n
        elif self.mode == 'ones':
            b = b'\xff' * n
        elif self.mode == 'alt':
            b = (b'\xaa' if self.count % 2 else b'\x55') * n
        elif self.mode == 'cycle3':
            b = bytes([self.count % 3]) * n
        else:
            b = bytes(self.rng.getrandbits(8) for _ in range(n))
        self.handed.append(b)
        if len(self.handed) > 4096:
            del self.handed[:2048]
        if len(self.requests) > 4096:
            del self.requests[:2048]
        return b


    # the rest of the ``secrets`` API, all drawing from token_bytes so that
    # what was taken from the source stays accounted for
    DEFAULT_ENTROPY = 32

    def token_hex(self, n=None):
        return self.token_bytes(n or self.DEFAULT_ENTROPY).hex()

    def token_urlsafe(self, n=None):
        import base64
        return base64.urlsafe_b64encode(self.token_bytes(
            n or self.DEFAULT_ENTROPY)).rstrip(b'=').decode('ascii')

    def randbits(self, k):
        nb = (k + 7) // 8
        return int.from_bytes(self.token_bytes(nb), 'big') >> (nb * 8 - k) \
            if k > 0 else 0

    def randbelow(self, n):
        k = max(1, (n - 1).bit_length())
        for _ in range(64):
            r = self.randbits(k)
            if r < n:
                return r
        return 0

    def choice(self, seq):
        return seq[self.randbelow(len(seq))]

    @staticmethod
    def compare_digest(a, b):
        import hmac
        return hmac.compare_digest(a, b)


class Request:
    """One HTTP exchange (or one WebSocket opening request)."""
    _fields = ('rid', 'cidx', 'kind', 'method', 'path', 'query', 'headers',
               'body', 'declared', 'scheme')

    def __init__(self, rid, cidx, kind, method, path, query, headers, body,
                 declared=None, scheme='http', tag=None):
        self.rid = rid
        self.cidx = cidx
        self.kind = kind            # 'http' | 'ws'
        self.method = method
        self.path = path
        self.query = query
        self.headers = headers      # list of (name, value)
        self.body = body            # bytes
        self.declared = declared    # Content-Length value (str/int) or None
        self.scheme = scheme
        self.tag = tag
        self.seq_issue = self.t_issue = None
        self.seq_arrive = self.t_arrive = None
        self.seq_done = self.t_done = None
        self.seq_resp = self.t_resp = None
        self.status = None
        self.resp_headers = None
        self.resp_body = None
        self.escaped = None         # exception that left the app callable
        self.gw_errors = []         # gateway-interface violations
        self.reads = []             # sizes handed out by wsgi.input.read
        self.read_calls = []        # arguments of read()
        self.lost = None            # 'req' | 'resp' when a fault ate a leg
        self.worker = None
        self.ws = None
        self.snap_arrive = None     # server-side observation at arrival
        self.snap_done = None       # ... and at completion

    def header(self, name, default=None):
        if not self.resp_headers:
            return default
        for k, v in self.resp_headers:
            if k.lower() == name.lower():
                return v
        return default

    def brief(self):
        return {'rid': self.rid, 'c': self.cidx, 'kind': self.kind,
                'm': self.method, 'q': self.query, 'st': self.status,
                't': [self.t_issue, self.t_arrive, self.t_done, self.t_resp]}


class BodyReader:
    def __init__(self, req, data):
        self.req = req
        self.data = data

    def read(self, n=-1):
        self.req.read_calls.append(n)
        if n is None or n < 0:
            r, self.data = self.data, b''
        else:
            r, self.data = self.data[:n], self.data[n:]
        self.req.reads.append(len(r))
        return r

    def readline(self, *a):
        return self.read()


class WsConn:
    """One WebSocket connection as both ends see it."""

    def __init__(self, world, wid, cidx, req, handler):
        self.world = world
        self.k = world.k
        self.wid = wid
        self.cidx = cidx
        self.req = req
        self.handler = handler          # client-side callbacks
        self.state = 'connecting'       # connecting|open|refused|closed
        self.c2s = []                   # client->server in flight / buffered
        self.c2s_last = 0.0
        self.s2c_last = 0.0
        self.server_inbox = []          # ('frame', data) | ('close',)
        self.server_closed = False      # server called close()
        self.client_closed = False      # client closed / dropped
        self.blackholed = False
        self.server_seen_close = False
        self.sent_c = []                # (seq, t, data) by the client
        self.recv_s = []                # (seq, t, data) read by server code
        self.sent_s = []                # (seq, t, data) by server code
        self.recv_c = []                # (seq, t, data) seen by the client
        self.t_open = None
        self.t_closed_c = None          # client learnt about the close
        self.seq_closed_c = None
        self.seq_close_arrived = None   # close reached the server side
        self.waiter = None              # threaded: SimThread; async: Future
        self.accepted = False
        self.s2c_queue = []
        self.c2s_queue = []
        self.arrivals = []              # (seq, t, item) reaching the server

    # ---- client side API (kernel context) ---------------------------------
    def send(self, data):
        if self.state != 'open' or self.client_closed:
            return False
        s = self.k.ev('ws.c.send', wid=self.wid, data=_brief(data))
        self.sent_c.append((s, self.k.now, data))
        if self.blackholed:
            self.world.fault('ws_blackhole_frame')
            return True
        self._c2s(('frame', data))
        return True

    def close(self):
        """Orderly close by the client (after everything already sent)."""
        if self.client_closed or self.state in ('refused', 'closed'):
            return
        self.client_closed = True
        self.k.ev('ws.c.close', wid=self.wid)
        if self.blackholed:
            return
        self._c2s(('close',))

    def drop(self):
        """Abrupt loss of the connection, noticed by both ends."""
        if self.state in ('refused', 'closed'):
            return
        self.world.fault('ws_drop')
        self.k.ev('ws.drop', wid=self.wid)
        self.client_closed = True
        self._c2s(('close',))
        self.k.after(self.k.latency(label='lat.drop'), self._client_closed,
                     'ws.closed')

    def blackhole(self):
        if not self.blackholed:
            self.blackholed = True
            self.world.fault('ws_blackhole')
            self.k.ev('ws.blackhole', wid=self.wid)

    def _c2s(self, item):
        when = max(self.c2s_last, self.k.now + self.k.latency(label='lat.c2s'))
        self.c2s_last = when
        self.c2s_queue.append(item)
        self.k.at(when, self._c2s_arrive, 'ws.c2s')

    def _c2s_arrive(self):
        if not self.c2s_queue:
            return
        item = self.c2s_queue.pop(0)
        if item[0] == 'close':
            self.seq_close_arrived = self.k.ev('ws.s.close_arrived',
                                               wid=self.wid)
            self.t_close_arrived = self.k.now
            self.arrivals.append((self.seq_close_arrived, self.k.now, item))
        else:
            s = self.k.ev('ws.s.arrived', wid=self.wid, data=_brief(item[1]))
            self.arrivals.append((s, self.k.now, item))
        self.server_inbox.append(item)
        self.world._ws_wake_server(self)

    # ---- server side helpers -------------------------------------------------
    def _s2c(self, item):
        if self.blackholed:
            if item[0] == 'frame':
                self.world.fault('ws_blackhole_frame')
            return
        when = max(self.s2c_last, self.k.now + self.k.latency(label='lat.s2c'))
        self.s2c_last = when
        self.s2c_queue.append(item)
        self.k.at(when, self._s2c_arrive, 'ws.s2c')

    def _s2c_arrive(self):
        if not self.s2c_queue:
            return
        item = self.s2c_queue.pop(0)
        kind = item[0]
        if self.state in ('closed', 'refused'):
            return
        if kind == 'accept':
            self.state = 'open'
            self.t_open = self.k.now
            self.k.ev('ws.c.open', wid=self.wid)
            self.handler.ws_opened(self)
        elif kind == 'refuse':
            self.state = 'refused'
            self.k.ev('ws.c.refused', wid=self.wid, status=item[1])
            self.handler.ws_refused(self, item[1], item[2])
        elif kind == 'frame':
            if self.client_closed:
                return
            s = self.k.ev('ws.c.frame', wid=self.wid, data=_brief(item[1]))
            self.recv_c.append((s, self.k.now, item[1]))
            self.handler.ws_frame(self, item[1], s)
        elif kind == 'close':
            self._client_closed()

    def _client_closed(self):
        if self.state in ('closed', 'refused'):
            return
        was = self.state
        self.state = 'closed'
        self.t_closed_c = self.k.now
        self.seq_closed_c = self.k.ev('ws.c.closed', wid=self.wid)
        if was == 'connecting':
            self.handler.ws_refused(self, 0, b'')
        else:
            self.handler.ws_closed(self)


def _brief(data):
    if isinstance(data, (bytes, bytearray)):
        return 'b:%d:%s' % (len(data), bytes(data[:12]).hex())
    if isinstance(data, str):
        return data if len(data) <= 40 else data[:40] + '..%d' % len(data)
    return repr(data)[:40]


class NullHandler:
    def ws_opened(self, c):
        pass

    def ws_refused(self, c, status, body):
        pass

    def ws_frame(self, c, data, seq):
        pass

    def ws_closed(self, c):
        pass


class ObservedSimQueue(K.SimQueue):
    world = None

    def put(self, item, block=True, timeout=None):
        super().put(item, block, timeout)
        self.world._observe_put(self, item)


class ObservedAsyncQueue(asyncio.Queue):
    world = None

    def put_nowait(self, item):
        super().put_nowait(item)
        self.world._observe_put(self, item)


class ServerWorld:
    """Shared machinery; subclasses provide the gateway."""
    impl = None

    def __init__(self, k, config=None, app_opts=None, mw_opts=None,
                 rng_mode='prng', rng_seed=0):
        self.k = k
        self.config = dict(config or {})
        self.mw_opts = dict(mw_opts or {})
        self.app_opts = dict(app_opts or {})
        self.requests = []
        self.wsconns = []
        self.logs = []              # captured server log records
        self.faults = {}
        self.probes = {}
        self.secrets = FakeSecrets(rng_mode, rng_seed)
        self.time = K.SimTimeModule(k)
        self._saved = []
        self.server = None
        self.gateway_app = None
        self.opened_files = []
        self.api_calls = []         # application-initiated calls
        self.stopped = False
        self.qlog = {}              # sid -> [(seq, t, ptype, data)]
        self._q_sid = {}

    def _observe_put(self, q, item):
        """Observation only: every packet queued for a session."""
        if self.k.killing:
            return
        sid = self._q_sid.get(id(q))
        if sid is None:
            for s_id, sock in self.server.sockets.items():
                if getattr(sock, 'queue', None) is q:
                    sid = s_id
                    self._q_sid[id(q)] = (sid, q)
                    break
            else:
                return
        else:
            sid = sid[0]
        if item is None or not hasattr(item, 'packet_type'):
            # an end-of-stream marker (None, or whatever object the code
            # under test uses for it)
            rec = (self.k.seq, self.k.now, None, None)
        else:
            rec = (self.k.seq, self.k.now, item.packet_type, item.data)
        self.qlog.setdefault(sid, []).append(rec)

    # -- link faults (used by the client-side fakes) ------------------------------
    link_faults = ()

    def link_verdict(self, cidx, kind):
        """'ok' | 'refuse' | 'lose_req' | 'lose_resp' | 'blackhole' for a
        connection attempt / request made now by client ``cidx``."""
        for f in self.link_faults:
            if f.get('c', cidx) != cidx:
                continue
            if f['t0'] <= self.k.now < f['t1'] and \
                    f.get('on', kind) in (kind, 'any'):
                return f['verdict']
        return 'ok'

    # -- bookkeeping -------------------------------------------------------------
    def fault(self, kind, n=1):
        self.faults[kind] = self.faults.get(kind, 0) + n

    def probe(self, name, n=1):
        self.probes[name] = self.probes.get(name, 0) + n

    def _patch(self, obj, attr, value):
        self._saved.append((obj, attr, getattr(obj, attr)))
        setattr(obj, attr, value)

    def _patch_item(self, d, key, value):
        self._saved.append((d, ('item', key), d[key]))
        d[key] = value

    def close(self):
        for obj, attr, val in reversed(self._saved):
            if isinstance(attr, tuple):
                obj[attr[1]] = val
            else:
                setattr(obj, attr, val)
        self._saved = []

    # -- observation (read-only) -----------------------------------------------
    def peek(self, sid):
        """Read-only look at a session: None if not in the table."""
        s = self.server.sockets.get(sid)
        if s is None:
            return None
        return {'upgraded': bool(getattr(s, 'upgraded', False)),
                'upgrading': bool(getattr(s, 'upgrading', False)),
                'closed': bool(getattr(s, 'closed', False)),
                'closing': bool(getattr(s, 'closing', False)),
                'connected': bool(getattr(s, 'connected', False)),
                'qlen': _qlen(getattr(s, 'queue', None))}

    def table(self):
        return list(self.server.sockets.keys())

    def _snap_all(self):
        return {sid: self.peek(sid) for sid in list(self.server.sockets)}

    # -- client facing -----------------------------------------------------------
    def http(self, cidx, method, query, headers=None, body=b'', cb=None,
             path='/engine.io/', declared=None, scheme='http', tag=None,
             lose=None, lat=None):
        req = Request(len(self.requests), cidx, 'http', method, path, query,
                      list(headers or []), body or b'', declared, scheme, tag)
        self.requests.append(req)
        req.cb = cb
        req.seq_issue = self.k.ev('http.issue', rid=req.rid, c=cidx, m=method,
                                  q=query, blen=len(req.body))
        req.t_issue = self.k.now
        if lose == 'req':
            req.lost = 'req'
            self.fault('conn_refused')
            return req
        req.lose_resp = (lose == 'resp')
        self.k.after(lat if lat is not None else self.k.latency(
            label='lat.req'), lambda: self._arrive(req), 'http.arrive')
        return req

    def _arrive(self, req):
        if self.stopped:
            return
        req.seq_arrive = self.k.ev('http.arrive', rid=req.rid)
        req.t_arrive = self.k.now
        req.snap_arrive = self._snap_all()
        self._start_http(req)

    def _finish_http(self, req):
        """Called (any context) when the gateway has a complete response or
        the app callable ended."""
        if req.seq_done is not None:
            return
        red = getattr(self, 'redact', None)
        if red and req.escaped:
            req.escaped = req.escaped.replace(red, '{root}')
        req.seq_done = self.k.ev('http.done', rid=req.rid, st=req.status,
                                 esc=req.escaped)
        req.t_done = self.k.now
        req.snap_done = self._snap_all()
        if req.lose_resp:
            req.lost = 'resp'
            self.fault('resp_lost')
            return
        self.k.after(self.k.latency(label='lat.resp'),
                     lambda: self._deliver(req), 'http.resp')

    def _deliver(self, req):
        req.seq_resp = self.k.ev('http.resp', rid=req.rid, st=req.status)
        req.t_resp = self.k.now
        if req.cb is not None:
            req.cb(req)

    def ws_connect(self, cidx, query, headers=None, handler=None,
                   path='/engine.io/', scheme='http', tag=None):
        hdrs = list(headers or [])
        names = {h[0].lower() for h in hdrs}
        if 'upgrade' not in names:
            hdrs.append(('Upgrade', 'websocket'))
        if 'connection' not in names:
            hdrs.append(('Connection', 'Upgrade'))
        req = Request(len(self.requests), cidx, 'ws', 'GET', path, query, hdrs,
                      b'', None, scheme, tag)
        self.requests.append(req)
        conn = WsConn(self, len(self.wsconns), cidx, req,
                      handler or NullHandler())
        self.wsconns.append(conn)
        req.ws = conn
        req.cb = None
        req.lose_resp = False
        req.seq_issue = self.k.ev('ws.issue', rid=req.rid, wid=conn.wid,
                                  c=cidx, q=query)
        req.t_issue = self.k.now
        self.k.after(self.k.latency(label='lat.wsreq'),
                     lambda: self._ws_arrive(req), 'ws.arrive')
        return conn

    def _ws_arrive(self, req):
        if self.stopped:
            return
        req.seq_arrive = self.k.ev('ws.arrive', rid=req.rid)
        req.t_arrive = self.k.now
        req.snap_arrive = self._snap_all()
        self._start_ws(req)

    def _ws_http_answer(self, req):
        """The app answered a websocket request with a plain HTTP response
        (or ended without accepting): the client sees a failed handshake."""
        conn = req.ws
        if conn.accepted:
            return
        conn._s2c(('refuse', req.status or 0, req.resp_body or b''))

    # -- application-initiated calls ------------------------------------------
    def api(self, name, *args, tag=None):
        """Run server.<name>(*args) as the application would, on its own
        thread/task so that a call that never returns is an observation."""
        rec = {'id': len(self.api_calls), 'name': name, 'args': _brief(args),
               'tag': tag, 'seq_start': None, 't_start': None,
               'seq_end': None, 't_end': None, 'exc': None, 'ret': None}
        self.api_calls.append(rec)
        self._start_api(rec, name, args)
        return rec


def _qlen(q):
    if q is None:
        return None
    try:
        return q.qsize()
    except Exception:
        return None


# ===========================================================================
# Threaded server behind WSGI
# ===========================================================================

class ConnectionClosed(Exception):
    """Fake of simple_websocket.ConnectionClosed."""

    def __init__(self, reason=1006, message=None):
        self.reason = reason
        self.message = message
        super().__init__('Connection closed: %s' % reason)


class SimWSServer:
    """Fake of simple_websocket.Server as seen by SimpleWebSocketWSGI."""
    mode = 'werkzeug'

    def __init__(self, environ, **kwargs):
        conn = environ.get('dsim.ws')
        if conn is None:
            # a real simple_websocket would fail the handshake here
            raise RuntimeError('Cannot obtain socket from WSGI environment.')
        self.conn = conn
        self.k = conn.k
        self.connected = True
        self.environ = environ
        conn.server_end = self
        conn.accepted = True
        self.k.yield_point('ws.accept')
        self.k.ev('ws.s.accept', wid=conn.wid)
        conn._s2c(('accept',))

    def receive(self, timeout=None):
        conn = self.conn
        k = self.k
        k.yield_point('ws.receive')
        while not conn.server_inbox:
            if not self.connected:
                raise ConnectionClosed()
            conn.waiter = k.current
            r = k.block(timeout, 'ws.receive')
            conn.waiter = None
            if r == 'timeout':
                return None
        item = conn.server_inbox.pop(0)
        if item[0] == 'close':
            self.connected = False
            conn.server_seen_close = True
            k.ev('ws.s.saw_close', wid=conn.wid)
            raise ConnectionClosed()
        s = k.ev('ws.s.recv', wid=conn.wid, data=_brief(item[1]))
        conn.recv_s.append((s, k.now, item[1]))
        return item[1]

    def send(self, data):
        k = self.k
        k.yield_point('ws.send')
        if not self.connected or any(i[0] == 'close'
                                     for i in self.conn.server_inbox):
            # the peer's close has reached this end: writes fail
            raise ConnectionClosed()
        if not isinstance(data, (str, bytes, bytearray)):
            raise TypeError('ws.send needs str or bytes, got %r' % type(data))
        s = k.ev('ws.s.send', wid=self.conn.wid, data=_brief(data))
        self.conn.sent_s.append((s, k.now, data))
        self.conn._s2c(('frame', data))

    def close(self, reason=None, message=None):
        k = self.k
        k.yield_point('ws.close')
        if not self.connected:
            raise ConnectionClosed()
        self.connected = False
        self.conn.server_closed = True
        k.ev('ws.s.close', wid=self.conn.wid)
        self.conn._s2c(('close',))
        # a blocked reader on this end is released (socket closed locally)
        if self.conn.waiter is not None:
            k.wake(self.conn.waiter, 'closed')


class FakeSimpleWebsocketModule:
    Server = SimWSServer
    ConnectionClosed = ConnectionClosed


class ThreadedServerWorld(ServerWorld):
    impl = 'threaded'

    def __init__(self, k, config=None, **kw):
        super().__init__(k, config, **kw)
        K.push_kernel(k)
        a = _thr_driver._async
        self._patch_item(a, 'thread', K.SimThread)
        world = self

        class _Q(ObservedSimQueue):
            pass
        _Q.world = world
        self._patch_item(a, 'queue', _Q)
        self._patch_item(a, 'event', K.SimEvent)
        self._patch_item(a, 'sleep', K.sim_sleep)
        self._patch(_ws_wsgi, 'simple_websocket', FakeSimpleWebsocketModule)
        self._patch(_eio_socket, 'time', self.time)
        self._patch(_eio_base_server, 'secrets', self.secrets)
        self._patch(_eio_payload.Payload, 'max_decode_packets',
                    self.app_opts.get('max_decode_packets', 16))
        cfg = dict(self.config)
        cfg.setdefault('async_mode', 'threading')
        cfg['logger'] = CaptureLogger(k, self.logs)
        self.server = engineio.Server(**cfg)
        mw = dict(self.mw_opts)
        self.fallback_calls = []
        other = None
        if mw.pop('with_other_app', False):
            other = self._other_wsgi
        self.gateway_app = engineio.WSGIApp(self.server, wsgi_app=other, **mw)

    def close(self):
        super().close()
        K.pop_kernel()

    def _other_wsgi(self, environ, start_response):
        self.fallback_calls.append(environ.get('PATH_INFO'))
        start_response('200 OK', [('Content-Type', 'text/plain'),
                                  ('X-Other', '1')])
        return [b'other-app']

    # -- gateway -----------------------------------------------------------------
    def _environ(self, req):
        env = {
            'REQUEST_METHOD': req.method,
            'PATH_INFO': req.path,
            'QUERY_STRING': req.query,
            'SCRIPT_NAME': '',
            'SERVER_NAME': 'sim',
            'SERVER_PORT': '80',
            'SERVER_PROTOCOL': 'HTTP/1.1',
            'REMOTE_ADDR': '10.0.0.%d' % ((req.cidx or 0) % 250 + 1),
            'wsgi.version': (1, 0),
            'wsgi.url_scheme': req.scheme,
            'wsgi.errors': io.StringIO(),
            'wsgi.multithread': True,
            'wsgi.multiprocess': False,
            'wsgi.run_once': False,
            'dsim.cidx': req.cidx,
            'dsim.rid': req.rid,
        }
        body = req.body
        declared = req.declared
        if declared is None and (body or req.method in ('POST', 'PUT')):
            declared = len(body)
        if declared is not None:
            env['CONTENT_LENGTH'] = str(declared)
            try:
                n = int(declared)
                if n >= 0:
                    body = body[:n]   # an HTTP server never hands out more
            except ValueError:
                pass
        env['wsgi.input'] = BodyReader(req, body)
        have_host = False
        for name, value in req.headers:
            key = name.upper().replace('-', '_')
            if key == 'CONTENT_TYPE':
                env['CONTENT_TYPE'] = value
                continue
            if key == 'CONTENT_LENGTH':
                continue
            if key == 'HOST':
                have_host = True
            key = 'HTTP_' + key
            if key in env:
                env[key] = env[key] + ',' + value
            else:
                env[key] = value
        if not have_host:
            env['HTTP_HOST'] = 'sim.local'
        return env

    def _start_http(self, req):
        req.worker = self.k.spawn(self._http_worker, (req,),
                                  name='W%d' % req.rid)

    def _http_worker(self, req):
        env = self._environ(req)
        calls = []

        def start_response(status, headers, exc_info=None):
            calls.append((status, headers))
            if len(calls) > 1 and exc_info is None:
                req.gw_errors.append('start_response called twice')
            _validate_wsgi_start(req, status, headers)
            return lambda data: req.gw_errors.append('write() callable used')
        body = b''
        try:
            result = self.gateway_app(env, start_response)
            try:
                chunks = []
                if isinstance(result, (bytes, str)):
                    req.gw_errors.append('body is a bare %s, not an iterable '
                                         'of bytes' % type(result).__name__)
                else:
                    for chunk in result:
                        if not isinstance(chunk, bytes):
                            req.gw_errors.append(
                                'body chunk of type %s' % type(chunk).__name__)
                            chunk = str(chunk).encode('utf-8', 'replace')
                        chunks.append(chunk)
                body = b''.join(chunks)
            except TypeError as e:
                req.gw_errors.append('body not iterable: %s' % e)
        except K.SimKilled:
            raise
        except BaseException as e:  # noqa
            req.escaped = '%s: %s' % (type(e).__name__, e)
        if self.k.killing:
            return
        if calls:
            st = calls[-1][0]
            try:
                req.status = int(str(st).split(' ')[0])
            except ValueError:
                req.status = -1
            req.status_line = st
            req.resp_headers = [(str(a), str(b)) for a, b in calls[-1][1]] \
                if isinstance(calls[-1][1], list) else []
        elif req.escaped is None:
            req.gw_errors.append('start_response never called')
        if req.escaped is not None and not calls:
            req.status = 500
        req.resp_body = body
        self._finish_http(req)

    def _start_ws(self, req):
        req.worker = self.k.spawn(self._ws_worker, (req,),
                                  name='WS%d' % req.rid)

    def _ws_worker(self, req):
        env = self._environ(req)
        env['dsim.ws'] = req.ws
        calls = []

        def start_response(status, headers, exc_info=None):
            calls.append((status, headers))
            return lambda data: None
        body = b''
        try:
            result = self.gateway_app(env, start_response)
            if not req.ws.accepted:
                body = b''.join(c for c in result if isinstance(c, bytes))
        except K.SimKilled:
            raise
        except StopIteration:
            pass
        except BaseException as e:  # noqa
            req.escaped = '%s: %s' % (type(e).__name__, e)
        if self.k.killing:
            return
        if calls:
            try:
                req.status = int(str(calls[-1][0]).split(' ')[0])
            except ValueError:
                req.status = -1
        req.resp_body = body
        req.seq_done = self.k.ev('ws.done', rid=req.rid, st=req.status,
                                 esc=req.escaped)
        req.t_done = self.k.now
        conn = req.ws
        if not conn.accepted:
            self._ws_http_answer(req)
        else:
            # the handler returned: a real server closes the hijacked socket
            end = getattr(conn, 'server_end', None)
            if end is not None and end.connected:
                end.connected = False
                conn.server_closed = True
                self.k.ev('ws.s.close_on_return', wid=conn.wid)
                conn._s2c(('close',))

    def _ws_wake_server(self, conn):
        if conn.waiter is not None:
            self.k.wake(conn.waiter, 'frame')

    # -- application calls -------------------------------------------------------
    def _start_api(self, rec, name, args):
        def run():
            rec['seq_start'] = self.k.ev('api.start', id=rec['id'], name=name)
            rec['t_start'] = self.k.now
            try:
                r = getattr(self.server, name)(*args)
                rec['ret'] = dict(r) if isinstance(r, dict) else r
            except K.SimKilled:
                raise
            except BaseException as e:  # noqa
                rec['exc'] = '%s: %s' % (type(e).__name__, e)
            if self.k.killing:
                return
            rec['seq_end'] = self.k.ev('api.end', id=rec['id'], name=name,
                                       exc=rec['exc'])
            rec['t_end'] = self.k.now
            if 'sid' in rec:
                rec['after'] = self.peek(rec['sid'])
        rec['thread'] = self.k.spawn(run, name='A%d:%s' % (rec['id'], name))

    def session_ctx(self, rec_tag, sid, mutate):
        """with server.session(sid) as s: mutate(s)"""
        def call():
            with self.server.session(sid) as s:
                mutate(s)
        rec = {'id': len(self.api_calls), 'name': 'session', 'args': sid,
               'tag': rec_tag, 'seq_start': None, 't_start': None,
               'seq_end': None, 't_end': None, 'exc': None, 'ret': None}
        self.api_calls.append(rec)

        def run():
            rec['seq_start'] = self.k.ev('api.start', id=rec['id'],
                                         name='session')
            rec['t_start'] = self.k.now
            try:
                call()
            except K.SimKilled:
                raise
            except BaseException as e:  # noqa
                rec['exc'] = '%s: %s' % (type(e).__name__, e)
            rec['seq_end'] = self.k.ev('api.end', id=rec['id'], name='session',
                                       exc=rec['exc'])
            rec['t_end'] = self.k.now
        self.k.spawn(run, name='A%d:session' % rec['id'])
        return rec


def _validate_wsgi_start(req, status, headers):
    if not isinstance(status, str):
        req.gw_errors.append('status is %s' % type(status).__name__)
    else:
        parts = status.split(' ', 1)
        if len(parts) != 2 or len(parts[0]) != 3 or not parts[0].isdigit() \
                or not parts[1]:
            req.gw_errors.append('malformed status line %r' % status)
    if not isinstance(headers, list):
        req.gw_errors.append('headers is %s' % type(headers).__name__)
        return
    for h in headers:
        if not (isinstance(h, tuple) and len(h) == 2 and
                isinstance(h[0], str) and isinstance(h[1], str)):
            req.gw_errors.append('bad header pair %r' % (h,))
            continue
        if '\n' in h[0] or '\r' in h[0] or '\n' in h[1] or '\r' in h[1]:
            req.gw_errors.append('control char in header %r' % (h,))


# ===========================================================================
# asyncio server behind ASGI
# ===========================================================================

class ClientDisconnected(OSError):
    """What an ASGI server raises from send() once the client has gone."""


class AsyncServerWorld(ServerWorld):
    impl = 'asyncio'

    def __init__(self, k, config=None, **kw):
        super().__init__(k, config, **kw)
        self.loop = K.SimLoop(k)
        self._patch(_eio_async_socket, 'time', self.time)
        self._patch(_eio_base_server, 'secrets', self.secrets)
        self._patch(_eio_payload.Payload, 'max_decode_packets',
                    self.app_opts.get('max_decode_packets', 16))
        cfg = dict(self.config)
        cfg.setdefault('async_mode', 'asgi')
        cfg['logger'] = CaptureLogger(k, self.logs)
        self.server = engineio.AsyncServer(**cfg)
        world = self

        class _AQ(ObservedAsyncQueue):
            pass
        _AQ.world = world
        self.server.create_queue = lambda *a, **kw: _AQ(*a, **kw)
        mw = dict(self.mw_opts)
        self.fallback_calls = []
        other = None
        if mw.pop('with_other_app', False):
            other = self._other_asgi
        self.gateway_app = engineio.ASGIApp(self.server, other_asgi_app=other,
                                            **mw)
        self.late_sends = 0

    async def _other_asgi(self, scope, receive, send):
        self.fallback_calls.append(scope.get('path'))
        if scope['type'] == 'lifespan':
            while True:
                ev = await receive()
                if ev['type'] == 'lifespan.startup':
                    await send({'type': 'lifespan.startup.complete',
                                'x-other': True})
                elif ev['type'] == 'lifespan.shutdown':
                    await send({'type': 'lifespan.shutdown.complete',
                                'x-other': True})
                    return
        if scope['type'] == 'websocket':
            await receive()
            await send({'type': 'websocket.close'})
            return
        await receive()
        await send({'type': 'http.response.start', 'status': 200,
                    'headers': [(b'x-other', b'1')]})
        await send({'type': 'http.response.body', 'body': b'other-app'})

    def _scope(self, req, typ):
        hdrs = []
        have_host = False
        for name, value in req.headers:
            if name.lower() == 'host':
                have_host = True
            if name.lower() == 'content-length':
                continue
            hdrs.append((name.lower().encode('latin-1', 'replace'),
                         value.encode('latin-1', 'replace')))
        if not have_host:
            hdrs.append((b'host', b'sim.local'))
        body = req.body
        declared = req.declared
        if typ == 'http':
            if declared is None and (body or req.method in ('POST', 'PUT')):
                declared = len(body)
            if declared is not None:
                hdrs.append((b'content-length', str(declared).encode()))
        scope = {
            'type': typ,
            'asgi': {'version': '3.0', 'spec_version': '2.3'},
            'http_version': '1.1',
            'scheme': req.scheme if typ == 'http' else
            ('wss' if req.scheme == 'https' else 'ws'),
            'path': req.path,
            'raw_path': req.path.encode('utf-8', 'replace'),
            'query_string': req.query.encode('utf-8', 'replace'),
            'root_path': '',
            'headers': hdrs,
            'client': ('10.0.0.%d' % ((req.cidx or 0) % 250 + 1), 40000),
            'server': ('sim', 80),
            'dsim.cidx': req.cidx,
            'dsim.rid': req.rid,
        }
        if typ == 'http':
            scope['method'] = req.method
        else:
            scope['subprotocols'] = []
        return scope

    def _start_http(self, req):
        req.worker = self.loop.spawn(self._http_task(req), 'W%d' % req.rid)

    async def _http_task(self, req):
        scope = self._scope(req, 'http')
        body = req.body
        if req.declared is not None:
            try:
                n = int(req.declared)
                if n >= 0:
                    body = body[:n]
            except ValueError:
                pass
        pending = [body]
        st = {'start': False, 'complete': False, 'chunks': []}
        req.disconnect = self.loop.create_future()

        async def receive():
            if pending:
                chunk = pending.pop(0)
                req.reads.append(len(chunk))
                return {'type': 'http.request', 'body': chunk,
                        'more_body': False}
            await req.disconnect
            return {'type': 'http.disconnect'}

        async def send(event):
            t = event.get('type') if isinstance(event, dict) else None
            if self.k.killing:
                return
            if t == 'http.response.start':
                if st['start']:
                    req.gw_errors.append('second http.response.start')
                st['start'] = True
                _validate_asgi_start(req, event)
                req.status = event.get('status')
                req.resp_headers = [
                    (a.decode('latin-1') if isinstance(a, bytes) else str(a),
                     b.decode('latin-1') if isinstance(b, bytes) else str(b))
                    for a, b in (event.get('headers') or [])]
            elif t == 'http.response.body':
                if not st['start']:
                    req.gw_errors.append('body before start')
                if st['complete']:
                    req.gw_errors.append('body after completed response')
                b = event.get('body', b'')
                if not isinstance(b, bytes):
                    req.gw_errors.append('body of type %s'
                                         % type(b).__name__)
                    b = str(b).encode('utf-8', 'replace')
                st['chunks'].append(b)
                if not event.get('more_body', False):
                    st['complete'] = True
                    req.resp_body = b''.join(st['chunks'])
            else:
                req.gw_errors.append('event %r on http scope' % (t,))
        try:
            await self.gateway_app(scope, receive, send)
        except asyncio.CancelledError:
            raise
        except BaseException as e:  # noqa
            req.escaped = '%s: %s' % (type(e).__name__, e)
        if self.k.killing:
            return
        if req.escaped is None and not st['complete']:
            req.gw_errors.append('app returned without a complete response')
        if req.escaped is not None and not st['start']:
            req.status = 500
        if req.resp_body is None:
            req.resp_body = b''.join(st['chunks'])
        self._finish_http(req)

    def _start_ws(self, req):
        req.worker = self.loop.spawn(self._ws_task(req), 'WS%d' % req.rid)

    async def _ws_task(self, req):
        conn = req.ws
        scope = self._scope(req, 'websocket')
        st = {'connect_given': False, 'closed': False}
        conn.afut = None

        async def receive():
            if not st['connect_given']:
                st['connect_given'] = True
                return {'type': 'websocket.connect'}
            while True:
                if conn.server_seen_close or conn.server_closed:
                    if not st.get('disc_given'):
                        # the connection is over: report it once
                        st['disc_given'] = True
                        conn.server_inbox[:] = []
                        return {'type': 'websocket.disconnect', 'code': 1006}
                    conn.afut = self.loop.create_future()
                    await conn.afut      # never resolves
                if conn.server_inbox:
                    break
                conn.afut = self.loop.create_future()
                try:
                    await conn.afut
                finally:
                    conn.afut = None
            item = conn.server_inbox.pop(0)
            if item[0] == 'close':
                conn.server_seen_close = True
                st['disc_given'] = True
                self.k.ev('ws.s.saw_close', wid=conn.wid)
                return {'type': 'websocket.disconnect', 'code': 1006}
            data = item[1]
            s = self.k.ev('ws.s.recv', wid=conn.wid, data=_brief(data))
            conn.recv_s.append((s, self.k.now, data))
            if isinstance(data, (bytes, bytearray)):
                return {'type': 'websocket.receive', 'bytes': bytes(data),
                        'text': None}
            return {'type': 'websocket.receive', 'text': data, 'bytes': None}

        async def send(event):
            t = event.get('type') if isinstance(event, dict) else None
            if self.k.killing:
                return          # teardown of the run: not part of history
            if st['closed']:
                # uvicorn: sends after the close are an error for the app,
                # sends after the *client* went away are dropped
                req.gw_errors.append('%s after websocket.close' % t)
                return
            if conn.server_seen_close:
                self.late_sends += 1
                if t == 'websocket.send' and self.app_opts.get(
                        'asgi_send_after_close', 'raise') == 'raise':
                    # uvicorn >= 0.28 / hypercorn: sending after the peer
                    # has gone raises (older uvicorn dropped silently)
                    raise ClientDisconnected()
                return
            if t == 'websocket.accept':
                if conn.accepted:
                    req.gw_errors.append('second websocket.accept')
                    return
                conn.accepted = True
                self.k.ev('ws.s.accept', wid=conn.wid)
                conn._s2c(('accept',))
            elif t == 'websocket.send':
                if not conn.accepted:
                    req.gw_errors.append('websocket.send before accept')
                    return
                slow = self.app_opts.get('slow_ws_write', 0)
                if slow and self.k.tape.chance(slow, 8, 'ws_write_blocked'):
                    # the socket buffer is full: the gateway suspends the
                    # sending task until it has drained; other tasks run
                    d = (1 + self.k.tape.draw(3, 'ws_write_blocked_for')) \
                        * K.TICK
                    self.fault('ws_write_blocked')
                    self.k.stall_total += d
                    await asyncio.sleep(d)
                    if self.k.killing or st['closed']:
                        return
                    if conn.server_seen_close:
                        self.late_sends += 1
                        if self.app_opts.get('asgi_send_after_close',
                                             'raise') == 'raise':
                            raise ClientDisconnected()
                        return
                data = event.get('bytes')
                if data is None:
                    data = event.get('text')
                if data is None:
                    req.gw_errors.append('websocket.send without payload')
                    return
                if event.get('bytes') is not None and \
                        not isinstance(event.get('bytes'), bytes):
                    req.gw_errors.append('websocket.send bytes of type %s' %
                                         type(event.get('bytes')).__name__)
                if event.get('bytes') is None and \
                        not isinstance(event.get('text'), str):
                    req.gw_errors.append('websocket.send text of type %s' %
                                         type(event.get('text')).__name__)
                s = self.k.ev('ws.s.send', wid=conn.wid, data=_brief(data))
                conn.sent_s.append((s, self.k.now, data))
                conn._s2c(('frame', data))
            elif t == 'websocket.close':
                st['closed'] = True
                conn.server_closed = True
                self.k.ev('ws.s.close', wid=conn.wid)
                fut = getattr(conn, 'afut', None)
                if fut is not None and not fut.done():
                    fut.set_result(None)    # pending receive sees the end
                if conn.accepted:
                    conn._s2c(('close',))
                else:
                    req.status = 403
                    conn._s2c(('refuse', 403,
                               (event.get('reason') or '').encode()))
            else:
                req.gw_errors.append('event %r on websocket scope' % (t,))
        try:
            await self.gateway_app(scope, receive, send)
        except asyncio.CancelledError:
            if getattr(conn, 'cancelled', False) and not self.k.killing:
                # the application let the cancellation through: its handler
                # for this socket is over all the same
                req.seq_done = self.k.ev('ws.done', rid=req.rid,
                                         esc='cancelled')
                req.t_done = self.k.now
            raise
        except BaseException as e:  # noqa
            req.escaped = '%s: %s' % (type(e).__name__, e)
        if self.k.killing:
            return
        req.seq_done = self.k.ev('ws.done', rid=req.rid, esc=req.escaped)
        req.t_done = self.k.now
        if not st['closed']:
            # app callable ended: the server closes the connection
            conn.server_closed = True
            if conn.accepted:
                self.k.ev('ws.s.close_on_return', wid=conn.wid)
                conn._s2c(('close',))
            else:
                conn._s2c(('refuse', req.status or 500, b''))

    def _ws_wake_server(self, conn):
        if self.app_opts.get('cancel_on_ws_loss') and \
                not getattr(conn, 'cancelled', False) and \
                not (conn.server_seen_close or conn.server_closed) and \
                conn.server_inbox and conn.server_inbox[0][0] == 'close':
            # the web framework learns that the connection is gone and
            # cancels the task that serves it (aiohttp does; so do some ASGI
            # servers): CancelledError is raised at whatever await the task
            # is parked in, and further reads report the disconnect
            w = conn.req.worker
            if w is not None and not w.done():
                conn.cancelled = True
                self.fault('task_cancelled')
                self.k.ev('ws.s.cancel', wid=conn.wid)
                conn.server_seen_close = True
                conn.server_inbox[:] = []
                w.cancel()
                return
        fut = getattr(conn, 'afut', None)
        if fut is not None and not fut.done() and conn.server_inbox and \
                not (conn.server_seen_close or conn.server_closed):
            fut.set_result(None)
        # (a receive() parked after the end of the connection stays parked)

    # -- application calls -------------------------------------------------------
    def _start_api(self, rec, name, args):
        async def run():
            rec['seq_start'] = self.k.ev('api.start', id=rec['id'], name=name)
            rec['t_start'] = self.k.now
            try:
                r = getattr(self.server, name)(*args)
                if asyncio.iscoroutine(r):
                    r = await r
                rec['ret'] = dict(r) if isinstance(r, dict) else r
            except asyncio.CancelledError:
                raise
            except BaseException as e:  # noqa
                rec['exc'] = '%s: %s' % (type(e).__name__, e)
            if self.k.killing:
                return
            rec['seq_end'] = self.k.ev('api.end', id=rec['id'], name=name,
                                       exc=rec['exc'])
            rec['t_end'] = self.k.now
            if 'sid' in rec:
                rec['after'] = self.peek(rec['sid'])
        rec['thread'] = self.loop.spawn(run(), 'A%d:%s' % (rec['id'], name))

    def session_ctx(self, rec_tag, sid, mutate):
        rec = {'id': len(self.api_calls), 'name': 'session', 'args': sid,
               'tag': rec_tag, 'seq_start': None, 't_start': None,
               'seq_end': None, 't_end': None, 'exc': None, 'ret': None}
        self.api_calls.append(rec)

        async def run():
            rec['seq_start'] = self.k.ev('api.start', id=rec['id'],
                                         name='session')
            rec['t_start'] = self.k.now
            try:
                async with self.server.session(sid) as s:
                    mutate(s)
            except asyncio.CancelledError:
                raise
            except BaseException as e:  # noqa
                rec['exc'] = '%s: %s' % (type(e).__name__, e)
            rec['seq_end'] = self.k.ev('api.end', id=rec['id'], name='session',
                                       exc=rec['exc'])
            rec['t_end'] = self.k.now
        self.loop.spawn(run(), 'A%d:session' % rec['id'])
        return rec


def _validate_asgi_start(req, event):
    st = event.get('status')
    if not isinstance(st, int) or not (100 <= st <= 599):
        req.gw_errors.append('bad status %r' % (st,))
    hdrs = event.get('headers')
    if hdrs is None:
        return
    try:
        for h in hdrs:
            if not (len(h) == 2 and isinstance(h[0], bytes)
                    and isinstance(h[1], bytes)):
                req.gw_errors.append('bad header pair %r' % (h,))
            elif b'\n' in h[0] or b'\r' in h[0] or b'\n' in h[1] \
                    or b'\r' in h[1]:
                req.gw_errors.append('control char in header %r' % (h,))
    except TypeError:
        req.gw_errors.append('headers not iterable')


def make_world(impl, k, **kw):
    if impl == 'threaded':
        return ThreadedServerWorld(k, **kw)
    return AsyncServerWorld(k, **kw)

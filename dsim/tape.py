"""Choice tape: the only source of nondeterminism inside a simulated run.

A run is decided by (plan, schedule tape).  The plan is produced by a
property's generator from ``random.Random(run_seed)`` *before* the run starts
and is stored in the replay file as plain JSON.  The schedule tape is the list
of every value handed out by ``Tape.draw`` while the run executes: scheduler
picks, latencies, reaction delays.  In generation mode the values come from a
second PRNG derived from the same run seed; in replay mode they are read back
from the recorded list (exhausted or out of range => 0), which is what makes
zeroing chunks of the tape a valid shrinking move.
"""
import hashlib
import random


def derive_seed(*parts):
    """Stable 63-bit seed from arbitrary parts (independent of PYTHONHASHSEED)."""
    h = hashlib.sha256(repr(parts).encode('utf-8')).digest()
    return int.from_bytes(h[:8], 'big') >> 1


class Tape:
    def __init__(self, seed=None, values=None):
        self.replay = values is not None
        self.values = list(values) if values is not None else []
        self.pos = 0
        self.rng = random.Random(seed) if values is None else None
        self.draws = 0

    def draw(self, n, label=None):
        """Return an integer in [0, n)."""
        self.draws += 1
        if n <= 1:
            # still consume a slot so that the tape layout does not depend on
            # how many alternatives there happened to be
            if self.replay:
                self.pos += 1
            else:
                self.values.append(0)
            return 0
        if self.replay:
            v = self.values[self.pos] if self.pos < len(self.values) else 0
            self.pos += 1
            if not isinstance(v, int) or v < 0 or v >= n:
                v = 0
            return v
        v = self.rng.randrange(n)
        self.values.append(v)
        return v

    def chance(self, num, den, label=None):
        """True with probability num/den; a zeroed tape slot means False."""
        return self.draw(den, label) >= den - num

    def recorded(self):
        if self.replay:
            return list(self.values[:self.pos])
        return list(self.values)

"""Client-side scenarios: the real Client / AsyncClient against the
ScriptedServer (C08, C09) inside one kernel."""
from . import kernel as K
from . import refmodel as R
from .tape import Tape
from .kernel import TICK
from .sserver import ScriptedServerWorld
from .clientworld import make_client_world
from .gen import ticks, Payloads


class CHistory:
    pass


def run_client_scenario(plan, sched_values=None, sched_seed=0):
    tape = Tape(seed=sched_seed, values=sched_values)
    k = K.Kernel(tape, horizon=plan.get('horizon', 60.0),
                 step_cap=plan.get('step_cap', 200000))
    k.fixed_latency = plan.get('fixed_latency')
    if plan.get('line'):
        import engineio as _e
        import os as _os
        k.enable_lines(plan['line'], (_os.path.dirname(_e.__file__) + '/',))
    ss = ScriptedServerWorld(k, plan.get('sserver', {}))
    cspec = plan['client']
    cw = make_client_world(cspec.get('kind', 'threaded'), ss, 0, cspec)
    h = CHistory()
    h.plan, h.k, h.ss, h.cw, h.tape = plan, k, ss, cw, tape
    try:
        for op in cspec.get('ops', []):
            k.at(op['t'], lambda op=op: cw.start_op(op), 'cop')
        k.run()
        import engineio.base_client as bc
        h.final = {
            'now': k.now, 'capped': k.capped,
            'state': cw.client.state, 'sid': cw.client.sid,
            'tasks_alive': cw.tasks_alive(),
            'in_connected_clients': cw.client in bc.connected_clients,
            'blocked': [(th.name, th.blocked_on)
                        for th in k.blocked_threads()],
            'thread_errors': list(k.thread_errors),
            'loop_errors': list(k.loop_errors),
            'steps': k.steps,
        }
        h.digest = k.log_digest()
        h.sched_digest = k.sched_digest.hexdigest()
        from . import oracles as _o
        _o.EPS = _o.EPS0 + k.stall_total
    finally:
        h.leaked = k.shutdown()
        cw.close()
        ss.close()
    return h


# ---------------------------------------------------------------------------
# generators
# ---------------------------------------------------------------------------

OPEN_FAIL_MODES = ['refuse', 'status', 'status', 'garbage', 'empty',
                   'non_open', 'silent', 'bad_utf8', 'missing_fields']
URLS = ['http://srv.example', 'http://srv.example:8080',
        'https://srv.example', 'http://srv.example/', 'ws://srv.example',
        'wss://srv.example:444', 'http://srv.example?token=abc',
        'http://srv.example:8080/base/?a=1&b=%20x', 'https://h.example?x=y',
        'http://srv.example/ignored/path?q=1']
EIO_PATHS = [None, None, None, 'engine.io', '/engine.io/', 'custom/eio',
             '/a/b/', 'socket.io']


def gen_client_plan(rng, prof=None):
    p = prof or {}
    kind = rng.choice(p.get('kinds', ['threaded', 'asyncio']))
    I = rng.choice(p.get('I', [1.0, 2.0]))
    T = rng.choice(p.get('T', [0.5, 1.0]))
    rt = rng.choice(p.get('request_timeout', [1, 2, 5]))
    transports = rng.choice(p.get('transports', [
        None, None, ['polling'], ['websocket'], ['polling', 'websocket']]))
    first = (transports or ['polling'])[0]
    span = p.get('span', 6.0)
    pay = Payloads(rng, ('s', 'j', 'b'), 's')
    cpay = Payloads(rng, ('s', 'j', 'b'), 'c')
    n_conn = rng.choice(p.get('cycles', [1, 1, 2, 3]))
    # server script ------------------------------------------------------------
    modes = []
    for _ in range(n_conn):
        if rng.random() < p.get('p_open_fail', 0.35):
            modes.append(rng.choice(OPEN_FAIL_MODES))
        else:
            modes.append('ok')
    upgrades = ['websocket'] if rng.random() < p.get('p_upgrades', 0.6) \
        else []
    script = {
        'open': {'modes': modes, 'pingInterval': int(I * 1000),
                 'pingTimeout': int(T * 1000), 'upgrades': upgrades,
                 'status': rng.choice([400, 401, 403, 500, 503, 302, 199]),
                 'json_body': rng.random() < 0.6,
                 'body': rng.choice(['"go away"', '{"code":7}', 'not json',
                                     '']),
                 'extra': [[4, pay.next()] for _ in range(rng.choice(
                     [0, 0, 1, 3]))]},
        'probe': rng.choice(p.get('probes', ['right', 'right', 'right',
                                             'wrong', 'never', 'refuse',
                                             'close', 'right_drop'])),
        'ping': {'auto': True,
                 'data': [rng.choice(['', '', 'x', 'probe', '{"a":1}', '12',
                                      'é', '"q"', '[1, 2]', 'null', '1e5',
                                      '1.50', '-0', 'true'])
                          for _ in range(3)]},
        'timeline': [],
    }
    if rng.random() < 0.3:
        script['probe_reply'] = rng.choice(['3nope', '4x', '3', '6', '2probe'])
    # how an upgrade socket is refused: HTTP status, or no TCP connection
    script['probe_status'] = rng.choice([400, 403, 0, 0])
    tl = script['timeline']
    for _ in range(rng.randint(*p.get('server_msgs', (0, 6)))):
        n = rng.choice([1, 1, 1, 2, 5, 16, p.get('max_burst', 16)])
        tl.append({'t': ticks(rng, 0.02, span),
                   'pkts': [[4, pay.next()] for _ in range(n)]})
    if rng.random() < p.get('p_noise', 0.3):
        tl.append({'t': ticks(rng, 0.1, span), 'do': 'noop'})
    if rng.random() < p.get('p_noise', 0.3):
        tl.append({'t': ticks(rng, 0.1, span), 'do': 'unknown_type',
                   'ptype': rng.choice([7, 8, 9, 0, 3, 5])})
    end = rng.random()
    pe = p.get('p_server_end', 0.5)
    if end < pe:
        tl.append({'t': ticks(rng, 0.05, span), 'do': rng.choice(
            p.get('server_ends', ['close', 'silence', 'drop_ws',
                                  'refuse_all', 'fail_posts',
                                  'end_session']))})
        if tl[-1]['do'] == 'fail_posts':
            tl[-1]['status'] = rng.choice([500, 400, 'refuse', 'silent'])
    tl.sort(key=lambda x: x['t'])
    # client ops ---------------------------------------------------------------
    ops = []
    t = ticks(rng, 0.0, 0.5)
    url = rng.choice(p.get('urls', URLS))
    ep = rng.choice(p.get('eio_paths', EIO_PATHS))
    for cyc in range(n_conn):
        op = {'t': t, 'op': 'connect', 'url': url}
        if transports is not None:
            op['transports'] = transports
        if ep is not None:
            op['engineio_path'] = ep
        ops.append(op)
        t0 = t
        for _ in range(rng.randint(*p.get('client_sends', (0, 6)))):
            ops.append({'t': t0 + ticks(rng, 0.0, span), 'op': 'send',
                        'data': cpay.next()})
        if rng.random() < p.get('p_send_burst', 0.15):
            tb = t0 + ticks(rng, 0.3, span)
            for _ in range(rng.choice([17, 18, 20, 33, 40])):
                ops.append({'t': tb, 'op': 'send', 'data': cpay.next()})
        if rng.random() < p.get('p_send_staggered', 0.2):
            # sends a tick or two apart: each has its place in the order,
            # and the write loop is still busy with the one before
            tb = t0 + ticks(rng, 0.3, span)
            for _ in range(rng.choice([3, 4, 6, 8])):
                ops.append({'t': tb, 'op': 'send', 'data': cpay.next()})
                tb += rng.choice([1, 1, 2, 3]) * TICK
        if rng.random() < p.get('p_client_disconnect', 0.5):
            ops.append({'t': t0 + ticks(rng, 0.05, span),
                        'op': 'disconnect',
                        'abort': rng.random() < 0.2})
        if rng.random() < 0.3:
            ops.append({'t': t0 + ticks(rng, 0.05, span), 'op': 'wait'})
        t = t0 + span + I + T + 5 + rt + 2.0
        # idle calls while (probably) disconnected
        if rng.random() < 0.4:
            ops.append({'t': t - 0.5, 'op': rng.choice(['send',
                                                        'disconnect']),
                        'data': {'k': 's', 'v': 'idle'}})
    ops.sort(key=lambda o: o['t'])
    actions = []
    if rng.random() < p.get('p_handler_action', 0.3):
        actions.append({'event': rng.choice(['connect', 'message',
                                             'disconnect']),
                        'nth': rng.choice([0, 0, 1]),
                        'action': rng.choice(['disconnect', 'disconnect',
                                              'send', 'raise']),
                        'data': 'from-handler'})
    elif rng.random() < p.get('p_greet', 0.15):
        # the application says hello from its connect handler
        actions.append({'event': 'connect', 'nth': 0, 'action': 'send',
                        'data': 'from-handler'})
    plan = {'client': {'kind': kind, 'request_timeout': rt, 'ops': ops,
                       'handler_actions': actions,
                       'coroutine_handlers': True,
                       'timestamp_requests': rng.random() < 0.7,
                       # (asyncio client: how often, in eighths, a WebSocket
                       # write finds the socket buffer full and suspends)
                       'slow_ws_write': rng.choice([0, 0, 0, 1, 2, 4])},
            'sserver': script,
            'horizon': t + 2.0,
            'meta': {'I': I, 'T': T, 'first': first, 'span': span}}
    return plan

"""Server-side scenarios: plan -> simulated run -> History.

A plan is plain JSON (see DESIGN 4.1).  The executor builds one server world,
one ServerApp and one ScriptedClient per session, runs the kernel to the
horizon and returns everything the oracles need.
"""
import asyncio
import sys
import urllib.parse

from . import kernel as K
from . import refmodel as R
from .tape import Tape
from .worlds import make_world, NullHandler, _brief

TICK = K.TICK


# ---------------------------------------------------------------------------
# the application on top of the server
# ---------------------------------------------------------------------------

class ServerApp:
    def __init__(self, world, opts):
        self.w = world
        self.k = world.k
        self.opts = opts or {}
        self.events = []            # dicts: seq,t,ev,sid,arg,c
        self.sid_of = {}            # cidx -> [sid, ...] in connect order
        self.cidx_of = {}
        self.accepted = {}          # sid -> bool
        self.counts = {'connect': 0, 'message': 0, 'disconnect': 0}
        self.connect_env = {}       # sid -> selected environ facts
        self.faults = list(self.opts.get('handler_faults', []))
        self.connect_rets = self.opts.get('connect', {})
        self.on_event = None
        server = world.server
        if world.impl == 'asyncio' and self.opts.get('coroutine_handlers',
                                                     True):
            server.on('connect', self._a_connect)
            server.on('message', self._a_message)
            server.on('disconnect', self._a_disconnect)
        else:
            server.on('connect', self._connect)
            server.on('message', self._message)
            server.on('disconnect', self._disconnect)
        if self.opts.get('legacy_disconnect'):
            # an application written before disconnect handlers were given a
            # reason: the server finds out by TypeError and calls again
            # without it
            if world.impl == 'asyncio' and self.opts.get(
                    'coroutine_handlers', True):
                server.on('disconnect', self._a_disconnect1)
            else:
                server.on('disconnect', self._disconnect1)

    # -- shared bodies -----------------------------------------------------
    def _rec(self, ev, sid, arg):
        if self.k.killing:
            return None
        n = self.counts[ev]
        self.counts[ev] = n + 1
        c = self.cidx_of.get(sid)
        s = self.k.ev('app.' + ev, sid=sid, arg=_brief(arg), c=c)
        rec = {'seq': s, 't': self.k.now, 'ev': ev, 'sid': sid, 'arg': arg,
               'c': c, 'n': n, 'actor': self.k.actor_name(),
               'spawn_seq': self.k.current.spawn_seq
               if self.k.current is not None else None}
        self.events.append(rec)
        if self.on_event:
            self.on_event(rec)
        return rec

    def _fault_for(self, ev, n, sid):
        for f in self.faults:
            if f.get('event') == ev and f.get('nth') == n:
                return f
            if f.get('event') == ev and f.get('c') is not None and \
                    f.get('c') == self.cidx_of.get(sid) and \
                    f.get('nth') is None:
                return f
        return None

    def _connect_pre(self, sid, environ):
        qs = urllib.parse.parse_qs(environ.get('QUERY_STRING', ''))
        c = None
        try:
            c = int(qs.get('c', ['x'])[0])
        except ValueError:
            pass
        self.cidx_of[sid] = c
        self.sid_of.setdefault(c, []).append(sid)
        rid = environ.get('dsim.rid')
        if rid is None and 'asgi.scope' in environ:
            rid = environ['asgi.scope'].get('dsim.rid')
        self.connect_env[sid] = {
            'origin': environ.get('HTTP_ORIGIN'),
            'transport': qs.get('transport', [None])[0],
            'rid': rid}
        rec = self._rec('connect', sid, None)
        if rec is not None:
            rec['rid'] = rid
        spec = self.connect_rets.get(str(c), self.connect_rets.get(c, 'none'))
        if isinstance(spec, list):
            # one outcome per successive open by this client
            i = len(self.sid_of[c]) - 1
            spec = spec[i] if i < len(spec) else 'none'
        if rec is not None:
            rec['outcome'] = spec
        self.accepted[sid] = spec in ('none', 'true')
        return spec

    @staticmethod
    def _connect_value(spec):
        if spec == 'none':
            return None
        if spec == 'true':
            return True
        if spec == 'false':
            return False
        if spec == 'zero':
            return 0
        if spec == 'empty':
            return ''
        if spec == 'text':
            return 'go away'
        if spec == 'dict':
            return {'code': 7, 'why': 'no'}
        if spec == 'list':
            return ['no', 1]
        if spec == 'emptylist':
            return []
        if spec == 'one':
            return 1
        if spec == 'onefloat':
            return 1.0
        if spec == 'zerofloat':
            return 0.0
        if spec == 'num':
            return 7
        if spec == 'emptydict':
            return {}
        if spec == 'raise':
            raise RuntimeError('connect handler failure (injected)')
        return None

    # -- sync handlers -----------------------------------------------------
    def _connect(self, sid, environ):
        spec = self._connect_pre(sid, environ)
        f = self._fault_for('connect', self.counts['connect'] - 1, sid)
        if f and self.events and self.events[-1]['sid'] == sid:
            self._apply_sync(f, sid, self.events[-1])
        return self._connect_value(spec)

    def _message(self, sid, data):
        rec = self._rec('message', sid, data)
        if rec is None:
            return
        f = self._fault_for('message', rec['n'], sid)
        if f:
            self._apply_sync(f, sid, rec)

    def _disconnect(self, sid, reason):
        rec = self._rec('disconnect', sid, reason)
        if rec is None:
            return
        f = self._fault_for('disconnect', rec['n'], sid)
        try:
            if f:
                self._apply_sync(f, sid, rec)
        finally:
            rec['seq_end'] = self.k.seq
            rec['t_end'] = self.k.now

    @staticmethod
    def _legacy_reason(sid):
        # (the reason the server would have passed: read from its frame, the
        # handler itself is not told)
        fr = sys._getframe(2)
        for _ in range(5):
            if fr is None:
                break
            a = fr.f_locals.get('args')
            if isinstance(a, tuple) and len(a) == 2 and a[0] == sid:
                return a[1]
            fr = fr.f_back
        return None

    def _disconnect1(self, sid):
        return self._disconnect(sid, self._legacy_reason(sid))

    async def _a_disconnect1(self, sid):
        return await self._a_disconnect(sid, self._legacy_reason(sid))

    def _apply_sync(self, f, sid, rec):
        act = f.get('action')
        self.w.fault('handler_' + str(act))
        rec['fault'] = act
        if act == 'raise':
            raise self._exc(f)
        if act == 'sleep':
            if self.w.impl == 'threaded':
                K.sim_sleep(f.get('s', 0.25), self.k)
        elif act == 'send':
            for data in self._send_data(f):
                if self.w.impl == 'threaded':
                    self.w.server.send(sid, data)
                else:
                    asyncio.ensure_future(self.w.server.send(sid, data))
        elif act == 'disconnect':
            if self.w.impl == 'threaded':
                self.w.server.disconnect(sid)

    @staticmethod
    def _exc(f):
        # (TypeError is the one the server itself catches, to retry a
        # disconnect handler that takes no reason)
        cls = {'TypeError': TypeError, 'KeyError': KeyError,
               'OSError': OSError}.get(f.get('exc'), RuntimeError)
        return cls('handler failure (injected)')

    @staticmethod
    def _send_data(f):
        d = f.get('data', 'reentrant')
        n = f.get('n', 1)
        return [d] if n == 1 else ['%s-%d' % (d, i) for i in range(n)]

    # -- coroutine handlers --------------------------------------------------
    async def _a_connect(self, sid, environ):
        spec = self._connect_pre(sid, environ)
        f = self._fault_for('connect', self.counts['connect'] - 1, sid)
        if f and self.events and self.events[-1]['sid'] == sid:
            await self._apply_async(f, sid, self.events[-1])
        return self._connect_value(spec)

    async def _a_message(self, sid, data):
        rec = self._rec('message', sid, data)
        if rec is None:
            return
        f = self._fault_for('message', rec['n'], sid)
        if f:
            await self._apply_async(f, sid, rec)

    async def _a_disconnect(self, sid, reason):
        rec = self._rec('disconnect', sid, reason)
        if rec is None:
            return
        f = self._fault_for('disconnect', rec['n'], sid)
        try:
            if f:
                await self._apply_async(f, sid, rec)
        finally:
            rec['seq_end'] = self.k.seq
            rec['t_end'] = self.k.now

    async def _apply_async(self, f, sid, rec):
        act = f.get('action')
        self.w.fault('handler_' + str(act))
        rec['fault'] = act
        if act == 'raise':
            raise self._exc(f)
        if act == 'sleep':
            await asyncio.sleep(f.get('s', 0.25))
        elif act == 'send':
            for data in self._send_data(f):
                await self.w.server.send(sid, data)
        elif act == 'disconnect':
            await self.w.server.disconnect(sid)

    # -- helpers for oracles ---------------------------------------------------
    def events_for(self, sid):
        return [e for e in self.events if e['sid'] == sid]


# ---------------------------------------------------------------------------
# the scripted Engine.IO v4 client
# ---------------------------------------------------------------------------

class SClient(NullHandler):
    def __init__(self, hist, idx, spec):
        self.h = hist
        self.w = hist.world
        self.k = hist.world.k
        self.idx = idx
        self.spec = spec
        self.sid = None
        self.transport = None
        self.t0 = None
        self.open_info = None
        self.open_req = None
        self.open_ws = None
        self.open_refused = None
        self.recv = []
        self.polls = []
        self.posts = []
        self.raws = []
        self.poll_out = 0
        self.stopped = False
        self.session_over = False
        self.over_why = None
        self.paused = False
        self.main_ws = None
        self.upg = None
        self.upgrades = []
        self.pings = []
        self.pongs = []
        self.sent_msgs = []
        self.decode_errors = []
        self.jsonp = spec.get('jsonp')
        self.scheme = spec.get('scheme', 'http')
        self.headers = [tuple(h) for h in spec.get('headers', [])]
        p = spec.get('poll', {})
        self.autopoll = p.get('mode', 'auto') == 'auto'
        self.poll_gap = p.get('gap', 1) * TICK
        self.poll_stop = p.get('stop_at')
        self.ping_count = 0
        self.last_pong_target = None
        self.first_ping_base = None

    # -- helpers ---------------------------------------------------------------
    def q(self, transport='polling', with_sid=True, jsonp=True):
        s = 'transport=%s&EIO=4&c=%d' % (transport, self.idx)
        if with_sid and self.sid:
            s += '&sid=' + self.sid
        if jsonp and self.jsonp is not None and transport == 'polling':
            s += '&j=%s' % self.jsonp
        return s

    def at(self, rel, fn, label='c'):
        """Schedule relative to the moment OPEN was received."""
        def guarded():
            if not self.stopped:
                fn()
        return self.k.at(self.t0 + rel, guarded, 'c%d.%s' % (self.idx, label))

    def start(self):
        self.k.at(self.spec.get('t_open', 0.0), self.open,
                  'c%d.open' % self.idx)

    # -- opening ---------------------------------------------------------------
    def open(self):
        if self.spec.get('open', 'polling') == 'websocket':
            self.open_ws = self.w.ws_connect(
                self.idx, self.q('websocket', with_sid=False),
                self.headers, handler=self, tag='open', scheme=self.scheme)
            self.open_req = self.open_ws.req
        else:
            self.open_req = self.w.http(
                self.idx, 'GET', self.q(with_sid=False), self.headers,
                cb=self._on_open_resp, tag='open', scheme=self.scheme)

    def _on_open_resp(self, req):
        if req.status != 200:
            self.open_refused = req.status
            self._after_refusal()
            return
        pkts = self._decode_http(req)
        if not pkts or pkts[0][0] != R.OPEN or not isinstance(pkts[0][1],
                                                               dict):
            self.decode_errors.append(('open', req.rid, 'no OPEN first'))
            return
        self._opened(pkts[0][1], 'polling')
        for i, p in enumerate(pkts):
            self._packet(p, 'poll', req.rid, i, req.seq_resp)
        self._after_open()

    def _after_refusal(self):
        """The open was refused: raw requests may still be scripted (they
        address the rejected id, if the application saw one)."""
        self.t0 = self.k.now
        sids = self.h.app.sid_of.get(self.idx)
        self.rejected_sid = sids[-1] if sids else None
        for r in self.spec.get('raw', []):
            self.at(r['t'], lambda r=r: self.raw(r), 'raw')

    def _opened(self, info, transport):
        self.open_info = info
        self.sid = info.get('sid')
        self.transport = transport
        self.t0 = self.k.now
        self.k.ev('c.opened', c=self.idx, sid=self.sid, tr=transport)
        self.h.client_of_sid[self.sid] = self

    def _after_open(self):
        sp = self.spec
        if self.transport == 'polling' and self.autopoll:
            self.at(self.poll_gap, self._autopoll, 'poll')
        for t in sp.get('poll', {}).get('extra', []):
            self.at(t, self.poll, 'xpoll')
        for m in sp.get('msgs', []):
            self.at(m['t'], lambda m=m: self.send_msgs(m), 'msg')
        for p in sp.get('posts', []):
            self.at(p['t'], lambda p=p: self.post_raw(p), 'post')
        for f in sp.get('frames', []):
            self.at(f['t'], lambda f=f: self.frame_raw(f), 'frame')
        for r in sp.get('raw', []):
            self.at(r['t'], lambda r=r: self.raw(r), 'raw')
        ups = sp.get('upgrades')
        if ups is None:
            ups = [sp['upgrade']] if sp.get('upgrade') else []
        for u in ups:
            self.at(u['t'], lambda u=u: self._upg_start(u), 'upg')
        e = sp.get('end')
        if e:
            self.at(e['t'], lambda: self.end(e), 'end')

    # -- decoding ----------------------------------------------------------------
    def _decode_http(self, req):
        j = None
        qj = urllib.parse.parse_qs(req.query).get('j')
        if qj:
            try:
                j = int(qj[0])
            except ValueError:
                j = None
        try:
            text = R.browser_decode(req.status, req.resp_headers,
                                    req.resp_body, j)
        except R.RefError as e:
            self.decode_errors.append(('transform', req.rid, str(e)))
            return None
        req.decoded_text = text
        out = []
        if text == '':
            return out
        for part in text.split(R.SEP):
            try:
                out.append(R.ref_decode(part))
            except R.RefError as e:
                self.decode_errors.append(('packet', req.rid, str(e)))
                out.append((None, part, 'bad'))
        return out

    def _packet(self, p, chan, ref, pos, seq):
        ptype, data, cert = p
        rec = {'seq': seq, 't': self.k.now, 'chan': chan, 'ref': ref,
               'pos': pos, 'ptype': ptype, 'data': data, 'cert': cert}
        self.recv.append(rec)
        if ptype == R.PING:
            self._on_ping(rec)
        elif ptype == R.CLOSE:
            self._over('close packet')
            if chan == 'ws' and self.main_ws is not None:
                ws = self.main_ws
                self.k.after(self.k.latency(label='c.closews'), ws.close,
                             'c.closews')

    def _over(self, why):
        if not self.session_over:
            self.session_over = True
            self.over_why = why
            self.over_seq = self.k.ev('c.over', c=self.idx, why=why)
            self.over_t = self.k.now

    # -- polling -----------------------------------------------------------------
    def _autopoll(self):
        if self.transport != 'polling' or self.paused or self.session_over:
            return
        if self.poll_stop is not None and \
                self.k.now >= self.t0 + self.poll_stop:
            return
        if self.poll_out == 0:
            self.poll(auto=True)

    def poll(self, auto=False):
        if self.stopped or self.sid is None:
            return
        req = self.w.http(self.idx, 'GET', self.q(), self.headers,
                          cb=self._on_poll_resp,
                          tag='poll' if auto else 'xpoll',
                          scheme=self.scheme)
        req.poll_out_at_issue = self.poll_out
        req.client_transport = self.transport
        req.upg_phase = self._upg_phase()
        self.polls.append(req)
        self.poll_out += 1
        return req

    def _on_poll_resp(self, req):
        self.poll_out -= 1
        if self.stopped:
            return
        req.processed = True
        if req.status == 200:
            pkts = self._decode_http(req)
            for i, p in enumerate(pkts or []):
                self._packet(p, 'poll', req.rid, i, req.seq_resp)
        else:
            self._over('poll status %s' % req.status)
        if self.upg and self.upg.get('waiting') == 'poll' and \
                self.poll_out == 0:
            self._upg_next()
        # a poll that is answered at once with nothing but NOOP, again and
        # again (an upgrade the server believes to be in progress): after 300
        # in a row the client slows down to one poll per 64 ticks, which
        # keeps the cost of the run bounded and changes nothing else
        if req.status == 200 and req.resp_body in (b'6', b'') and \
                req.t_resp is not None and req.t_issue is not None and \
                req.t_resp - req.t_issue <= 4 * TICK:
            self.noop_run = getattr(self, 'noop_run', 0) + 1
        else:
            self.noop_run = 0
        if self.autopoll and req.tag == 'poll':
            gap = self.poll_gap
            if getattr(self, 'noop_run', 0) > 300:
                gap = max(gap, 64 * TICK)
                self.h.world.probe('noop_storm_backoff')
            self.k.after(gap, self._autopoll_guard, 'c.repoll')

    def _autopoll_guard(self):
        if not self.stopped:
            self._autopoll()

    # -- heartbeat ---------------------------------------------------------------
    def _on_ping(self, rec):
        n = self.ping_count
        self.ping_count += 1
        self.pings.append(rec)
        rules = self.spec.get('pong', {})
        rule = rules.get('rules', {}).get(str(n), rules.get('default',
                                                            {'mode': 'prompt'}))
        mode = rule.get('mode', 'prompt')
        if mode == 'never':
            self.h.world.probe('pong_withheld')
            return
        data = rec['data'] if isinstance(rec['data'], str) else ''
        if mode == 'prompt':
            d = rule.get('delay', 1) * TICK
            self.k.after(d, lambda: self._send_pong(data, None), 'c.pong')
        elif mode == 'deadline':
            # aim the PONG's *arrival at the server* relative to the deadline
            T = self.h.cfg_ping_timeout
            ping_t = rec.get('server_t')
            if ping_t is None:
                ping_t = self.h.ping_time_of(self, rec)
            target = ping_t + T + rule.get('offset', 0) * TICK
            lat = 2 * TICK
            when = max(self.k.now, target - lat)
            self.k.at(when, lambda: self._send_pong(
                data, max(TICK, target - self.k.now)), 'c.pong')

    def _send_pong(self, data, lat):
        if self.stopped or self.session_over:
            return
        self.pongs.append({'t': self.k.now, 'lat': lat})
        self._send_packets([(R.PONG, data)], lat=lat, tag='pong')

    # -- sending -----------------------------------------------------------------
    def _send_packets(self, pkts, lat=None, tag='msg'):
        if self.transport == 'websocket' and self.main_ws is not None:
            for t, d in pkts:
                self.main_ws.send(R.ref_encode(t, d, False))
            return None
        body = R.ref_payload_encode(pkts).encode('utf-8')
        return self._post(body, tag=tag, lat=lat)

    def _post(self, body, tag='post', declared=None, lat=None, query=None,
              headers=None):
        req = self.w.http(self.idx, 'POST', query or self.q(jsonp=False),
                          (headers if headers is not None else self.headers) +
                          [('Content-Type', 'text/plain;charset=UTF-8')],
                          body, cb=self._on_post_resp, declared=declared,
                          tag=tag, lat=lat, scheme=self.scheme)
        req.client_transport = self.transport
        self.posts.append(req)
        return req

    def _on_post_resp(self, req):
        if req.status != 200 and not self.stopped and req.tag != 'rawpost':
            self._over('post status %s' % req.status)

    def send_msgs(self, m):
        """Application-level messages from the client, on the transport the
        client is currently using."""
        if self.session_over or self.sid is None:
            return
        vals = [R.spec_to_value(d) for d in m['data']]
        pkts = [(R.MESSAGE, v) for v in vals]
        req = self._send_packets(pkts, tag='msg')
        s = self.k.seq
        for v in vals:
            self.sent_msgs.append({'seq': s, 't': self.k.now, 'val': v,
                                   'via': 'ws' if req is None else 'post',
                                   'rid': None if req is None else req.rid,
                                   'group': m.get('g')})

    def post_raw(self, p):
        if self.sid is None:
            return
        body = p['body']
        if isinstance(body, dict):
            body = bytes.fromhex(body['hex'])
        else:
            body = body.encode('utf-8', 'surrogatepass')
        req = self._post(body, tag='rawpost', declared=p.get('declared'))
        req.raw_spec = p

    def frame_raw(self, f):
        ws = self.main_ws
        if f.get('on') == 'upg' and self.upg:
            ws = self.upg['conn']
        if ws is None:
            return
        d = f['data']
        if isinstance(d, dict):
            d = bytes.fromhex(d['hex'])
        ws.send(d)

    def raw(self, r):
        sid = self.sid or getattr(self, 'rejected_sid', None) or ''
        if '{other}' in r.get('query', ''):
            others = [c.sid for c in self.h.clients
                      if c is not self and c.sid]
            r = dict(r, query=r['query'].replace(
                '{other}', others[0] if others else 'nobody'))
        query = r.get('query', '').replace('{sid}', sid).replace(
            '{c}', str(self.idx))
        hdrs = [tuple(h) for h in r.get('headers', [])]
        body = r.get('body', '')
        if isinstance(body, dict):
            body = bytes.fromhex(body['hex'])
        else:
            body = body.encode('utf-8', 'surrogatepass')
        if r.get('ws'):
            conn = self.w.ws_connect(self.idx, query, hdrs,
                                     handler=RawWsHandler(self, r),
                                     path=r.get('path', '/engine.io/'),
                                     tag='raw',
                                     scheme=r.get('scheme', self.scheme))
            conn.req.raw_spec = r
            conn.req.target_sid = sid
            self.raws.append(conn.req)
            return
        req = self.w.http(self.idx, r.get('method', 'GET'), query, hdrs, body,
                          cb=self._on_raw_resp, declared=r.get('declared'),
                          path=r.get('path', '/engine.io/'),
                          scheme=r.get('scheme', self.scheme), tag='raw')
        req.raw_spec = r
        req.target_sid = sid
        self.raws.append(req)

    def _on_raw_resp(self, req):
        # a raw GET that was admitted as a poll may carry packets: account
        # for them so that completeness oracles stay exact
        if req.status == 200 and req.method == 'GET' and self.sid and \
                ('sid=' + self.sid) in req.query and req.resp_body:
            pkts = self._decode_http(req)
            for i, p in enumerate(pkts or []):
                if p[0] is not None:
                    self._packet(p, 'poll', req.rid, i, req.seq_resp)

    # -- upgrade -----------------------------------------------------------------
    def _upg_phase(self):
        u = self.upg
        if u is None:
            return 'none'
        if u.get('finished'):
            return 'done:' + ('ok' if u.get('ok') else 'fail')
        if u.get('sent_upgrade'):
            return 'sent5'
        if u.get('got_probe'):
            return 'probed'
        return 'started'

    def _upg_start(self, spec):
        if self.sid is None or self.session_over:
            return
        if self.upg is not None and not self.upg.get('finished'):
            return
        steps = spec.get('steps')
        if steps is None:
            steps = [['send', '2probe'], ['wait_frame'], ['pause_poll'],
                     ['wait_poll'], ['send', '5']]
        u = {'spec': spec, 'steps': steps, 'i': 0, 'got': [], 'used': 0,
             'sent': [], 'waiting': None, 'finished': False, 'ok': False,
             'got_probe': False, 'sent_upgrade': False, 't_start': self.k.now,
             'seq_start': self.k.seq}
        q = spec.get('query')
        if q:
            q = q.replace('{sid}', self.sid).replace('{c}', str(self.idx))
        u['conn'] = self.w.ws_connect(
            self.idx, q or self.q('websocket'),
            [tuple(h) for h in spec.get('headers', [])] + self.headers,
            handler=self, tag='upgrade', scheme=self.scheme)
        u['conn'].upg = u
        self.upg = u
        self.upgrades.append(u)

    def _upg_next(self):
        u = self.upg
        if u is None or u['finished'] or self.stopped:
            return
        conn = u['conn']
        u['waiting'] = None
        steps = u['steps']
        while u['i'] < len(steps):
            st = steps[u['i']]
            op = st[0]
            if op in ('send', 'close', 'drop', 'blackhole') and \
                    u['got_probe'] and 'seq_after_probe' not in u:
                # the client's first action on the socket after 3probe
                u['seq_after_probe'] = self.k.seq
            if op == 'send':
                d = st[1]
                if isinstance(d, dict):
                    d = bytes.fromhex(d['hex'])
                if conn.state != 'open':
                    break
                conn.send(d)
                u['sent'].append((self.k.seq, self.k.now, d))
                if d == '5' and u['got_probe'] and len(u['sent']) >= 2 and \
                        [x[2] for x in u['sent']] == ['2probe', '5']:
                    u['sent_upgrade'] = True
                    u['seq_sent5'] = self.k.seq
                    u['t_sent5'] = self.k.now
                u['i'] += 1
            elif op == 'wait_frame':
                if u['used'] < len(u['got']):
                    u['used'] += 1
                    u['i'] += 1
                else:
                    u['waiting'] = 'frame'
                    return
            elif op == 'pause_poll':
                self.paused = True
                u['i'] += 1
            elif op == 'wait_poll':
                if self.poll_out == 0:
                    u['i'] += 1
                else:
                    u['waiting'] = 'poll'
                    return
            elif op == 'delay':
                u['i'] += 1
                self.k.after(st[1] * TICK, self._upg_next_guard, 'c.upgdelay')
                u['waiting'] = 'delay'
                return
            elif op == 'close':
                conn.close()
                u['i'] += 1
            elif op == 'drop':
                conn.drop()
                u['i'] += 1
            elif op == 'blackhole':
                conn.blackhole()
                u['i'] += 1
            else:
                u['i'] += 1
        self._upg_finish()

    def _upg_next_guard(self):
        if self.upg and self.upg.get('waiting') == 'delay':
            self._upg_next()

    def _upg_finish(self):
        u = self.upg
        if u['finished']:
            return
        u['finished'] = True
        u['t_end'] = self.k.now
        u['seq_end'] = self.k.seq
        conn = u['conn']
        ok = u['sent_upgrade'] and conn.state == 'open' and \
            not conn.client_closed
        u['ok'] = ok
        self.k.ev('c.upg_finish', c=self.idx, ok=ok)
        sid = self.sid

        def observe():
            u['snap_after'] = (self.k.seq, self.k.now, self.w.peek(sid))
        self.k.after(16 * TICK, observe, 'c.upg_observe')
        if ok:
            self.transport = 'websocket'
            self.main_ws = conn
            self.paused = False
        else:
            self.paused = False
            if u['spec'].get('close_on_fail', True) and \
                    conn.state == 'open' and not conn.client_closed:
                conn.close()
            if self.autopoll and not self.session_over:
                self.k.after(self.poll_gap, self._autopoll_guard, 'c.repoll')

    # -- websocket callbacks -------------------------------------------------------
    def ws_opened(self, conn):
        if self.stopped:
            return
        if getattr(conn, 'upg', None) is not None:
            self._upg_next()

    def ws_refused(self, conn, status, body):
        if conn is self.open_ws:
            self.open_refused = status or -1
            self._after_refusal()
            return
        u = getattr(conn, 'upg', None)
        if u is not None and not u['finished']:
            u['refused'] = status
            self._upg_finish()

    def ws_frame(self, conn, data, seq):
        if self.stopped:
            return
        try:
            p = R.ref_decode(data)
        except R.RefError as e:
            self.decode_errors.append(('frame', conn.wid, str(e)))
            return
        u = getattr(conn, 'upg', None)
        if conn is self.open_ws and self.sid is None:
            if p[0] == R.OPEN and isinstance(p[1], dict):
                self._opened(p[1], 'websocket')
                self.main_ws = conn
                self._packet(p, 'ws', conn.wid, len(conn.recv_c) - 1, seq)
                self._after_open()
            else:
                self.decode_errors.append(('open', conn.wid,
                                           'no OPEN first'))
            return
        if u is not None and not (u['finished'] and u['ok']):
            u['got'].append((seq, self.k.now, data))
            if data == '3probe' and [x[2] for x in u['sent']] == ['2probe']:
                u['got_probe'] = True
                u['seq_probe'] = seq
                u['t_probe'] = self.k.now
            rec = {'seq': seq, 't': self.k.now, 'chan': 'upg',
                   'ref': conn.wid, 'pos': len(conn.recv_c) - 1,
                   'ptype': p[0], 'data': p[1], 'cert': p[2]}
            self.recv.append(rec)
            if u['waiting'] == 'frame':
                self._upg_next()
            return
        self._packet(p, 'ws', conn.wid, len(conn.recv_c) - 1, seq)

    def ws_closed(self, conn):
        u = getattr(conn, 'upg', None)
        if u is not None and not u['finished']:
            u['closed_by_server'] = True
            self._upg_finish()
            return
        if conn is self.main_ws:
            self._over('ws closed')

    # -- ending ------------------------------------------------------------------
    def end(self, e):
        how = e.get('how', 'close_packet')
        self.k.ev('c.end', c=self.idx, how=how)
        self.end_seq = self.k.seq
        self.end_t = self.k.now
        self.end_how = how
        if how == 'close_packet':
            self._send_packets([(R.CLOSE, None)], tag='close')
            self._over('client close')
            if self.main_ws is not None and e.get('then_close_ws', True):
                ws = self.main_ws
                self.k.after(2 * TICK, ws.close, 'c.closews')
        elif how == 'ws_close':
            if self.main_ws is not None:
                self.main_ws.close()
                self._over('client ws close')
            else:
                self.stopped = True
                self.w.fault('client_vanish')
        elif how == 'drop':
            if self.main_ws is not None:
                self.main_ws.drop()
                self._over('ws drop')
            else:
                self.stopped = True
                self.w.fault('client_vanish')
        elif how == 'vanish':
            self.stopped = True
            self.w.fault('client_vanish')
            if self.main_ws is not None:
                self.main_ws.blackhole()
            if self.upg and not self.upg['finished']:
                self.upg['conn'].blackhole()
        elif how == 'stop_polling':
            self.autopoll = False


class RawWsHandler(NullHandler):
    def __init__(self, client, spec):
        self.c = client
        self.spec = spec
        self.frames = []
        self.status = None
        self.opened = False
        self.closed = False

    def ws_opened(self, conn):
        self.opened = True
        conn.raw_handler = self
        self.conn = conn
        for f in self.spec.get('frames', []):
            conn.send(f)
        # a little script of its own (a rival upgrade handshake):
        # ['send', d] / ['wait_frame'] / ['delay', ticks]
        self.steps = list(self.spec.get('script', []))
        self.waiting = False
        self._next()
        if self.spec.get('close_after', True):
            self.c.k.after(self.spec.get('hold', 4) * TICK, conn.close,
                           'rawws.close')

    def _next(self):
        while self.steps and not self.closed:
            st = self.steps[0]
            if st[0] == 'send':
                self.steps.pop(0)
                if self.conn.state != 'open':
                    return
                self.conn.send(st[1])
            elif st[0] == 'wait_frame':
                if self.frames and not getattr(self, 'used', 0) >= \
                        len(self.frames):
                    self.used = getattr(self, 'used', 0) + 1
                    self.steps.pop(0)
                else:
                    self.waiting = True
                    return
            elif st[0] == 'delay':
                self.steps.pop(0)
                self.c.k.after(st[1] * TICK, self._next, 'rawws.delay')
                return
            else:
                self.steps.pop(0)

    def ws_refused(self, conn, status, body):
        self.status = status
        conn.raw_handler = self

    def ws_frame(self, conn, data, seq):
        self.frames.append((seq, data))
        if getattr(self, 'waiting', False):
            self.waiting = False
            self._next()

    def ws_closed(self, conn):
        self.closed = True


# ---------------------------------------------------------------------------
# History: everything a run produced
# ---------------------------------------------------------------------------

class History:
    def __init__(self, plan, world, tape):
        self.plan = plan
        self.world = world
        self.k = world.k
        self.tape = tape
        self.clients = []
        self.client_of_sid = {}
        self.app = None
        self.snaps = []
        self.final = None
        self.cfg_ping_timeout = world.server.ping_timeout
        self.cfg_ping_interval = world.server.ping_interval
        self.app_sends = []         # application send records
        self.notes = []

    def snapshot_sessions(self):
        w = self.world
        out = {}
        for sid in list(w.server.sockets.keys()):
            out[sid] = w.peek(sid)
        return out

    def ping_time_of(self, client, rec):
        """Server-side time at which the PING of ``rec`` was produced
        (exact, from the server-side stamps)."""
        stamps = [t for (s, t, pt, d) in self.world.qlog.get(client.sid, [])
                  if pt == R.PING and t <= rec['t']]
        return stamps[-1] if stamps else rec['t']

    ping_stamps = None


def _install_ping_stamps(hist):
    """Record the virtual time of every PING the server produces.  This is
    observation only: it wraps the per-session queue's put() of the world's
    queue class, looking at packets as they are queued."""
    hist.ping_stamps = {}


def run_server_scenario(plan, sched_values=None, sched_seed=0):
    """Execute one plan.  Returns a History (world already shut down)."""
    tape = Tape(seed=sched_seed, values=sched_values)
    k = K.Kernel(tape, horizon=plan.get('horizon', 60.0),
                 step_cap=plan.get('step_cap', 200000))
    k.fixed_latency = plan.get('fixed_latency')
    if plan.get('line'):
        import engineio as _e
        import os as _os
        k.enable_lines(plan['line'], (_os.path.dirname(_e.__file__) + '/',))
    world = make_world(plan.get('server', 'threaded'), k,
                       config=_config_from_plan(plan.get('config', {})),
                       app_opts=plan.get('app_opts', {}),
                       mw_opts=plan.get('mw_opts', {}),
                       rng_mode=plan.get('rng_mode', 'prng'),
                       rng_seed=plan.get('rng_seed', 0))
    hist = History(plan, world, tape)
    try:
        _install_ping_stamps(hist)
        hist.app = ServerApp(world, plan.get('app_opts', {}))
        _wrap_sends(hist)
        for i, spec in enumerate(plan.get('sessions', [])):
            c = SClient(hist, i, spec)
            hist.clients.append(c)
            c.start()
        for op in plan.get('app', []):
            k.at(op['t'], lambda op=op: _do_app_op(hist, op), 'app.op')
        for t in plan.get('snapshots', []):
            k.at(t, lambda: hist.snaps.append(
                (k.seq, k.now, hist.snapshot_sessions())), 'snap')
        for f in plan.get('faults', []):
            k.at(f['t'], lambda f=f: _do_fault(hist, f), 'fault')
        k.run()
        hist.final = {
            'now': k.now,
            'capped': k.capped,
            'table': hist.snapshot_sessions(),
            'blocked': [(th.name, th.blocked_on) for th in
                        k.blocked_threads()],
            'thread_errors': list(k.thread_errors),
            'loop_errors': list(k.loop_errors),
            'steps': k.steps,
        }
        hist.digest = k.log_digest()
        hist.sched_digest = k.sched_digest.hexdigest()
        from . import oracles as _o
        _o.EPS = _o.EPS0 + k.stall_total
    finally:
        leaked = k.shutdown()
        world.close()
        hist.leaked = leaked
    return hist


def _config_from_plan(cfg):
    out = {}
    for key, val in cfg.items():
        if key == 'ping_interval' and isinstance(val, list):
            val = tuple(val)
        if key == 'cookie' and isinstance(val, dict):
            val = dict(val)
            for ck, cv in list(val.items()):
                if cv == '__callable__':
                    val[ck] = lambda: 'called'
        if key == 'cors_allowed_origins' and isinstance(val, dict):
            allowed = set(val.get('callable', []))
            val = lambda origin, allowed=allowed: origin in allowed  # noqa
        out[key] = val
    return out


def _wrap_sends(hist):
    pass


def _resolve_sid(hist, op):
    if 'sid' in op:
        return op['sid']
    c = op.get('c')
    sids = hist.app.sid_of.get(c)
    if not sids:
        return None
    return sids[op.get('which', -1)] if abs(op.get('which', -1)) <= len(
        sids) else sids[-1]


def _do_app_op(hist, op):
    w = hist.world
    name = op['op']
    if name == 'disconnect_all':
        rec = w.api('disconnect', tag=op)
        rec['table_before'] = hist.snapshot_sessions()
        return
    sid = _resolve_sid(hist, op) if name != 'send_shared' else ''
    if sid is None:
        hist.notes.append(('app op skipped (no sid yet)', op))
        return
    before = w.peek(sid) if sid else None
    if name == 'send':
        val = R.spec_to_value(op['data'])
        rec = w.api('send', sid, val, tag=op)
        rec.update({'sid': sid, 'val': val, 'before': before, 'c': op.get('c')})
        hist.app_sends.append(rec)
    elif name == 'send_burst':
        # one application thread/task sending several messages in program
        # order (binding order between them)
        vals = [R.spec_to_value(d) for d in op['data']]
        recs = []
        for val in vals:
            rec = {'id': len(w.api_calls), 'name': 'send',
                   'args': _brief((sid, val)), 'tag': op, 'seq_start': None,
                   't_start': None, 'seq_end': None, 't_end': None,
                   'exc': None, 'ret': None, 'sid': sid, 'val': val,
                   'before': None, 'c': op.get('c'), 'burst': True}
            w.api_calls.append(rec)
            hist.app_sends.append(rec)
            recs.append(rec)
        if w.impl == 'threaded':
            def run():
                for rec in recs:
                    rec['before'] = w.peek(sid)
                    rec['seq_start'] = w.k.ev('api.start', id=rec['id'],
                                              name='send')
                    rec['t_start'] = w.k.now
                    try:
                        w.server.send(sid, rec['val'])
                    except K.SimKilled:
                        raise
                    except BaseException as e:  # noqa
                        rec['exc'] = '%s: %s' % (type(e).__name__, e)
                    if w.k.killing:
                        return
                    rec['seq_end'] = w.k.ev('api.end', id=rec['id'],
                                            name='send', exc=rec['exc'])
                    rec['t_end'] = w.k.now
                    rec['after'] = w.peek(sid)
            w.k.spawn(run, name='A%d:burst' % recs[0]['id'])
        else:
            async def arun():
                for rec in recs:
                    rec['before'] = w.peek(sid)
                    rec['seq_start'] = w.k.ev('api.start', id=rec['id'],
                                              name='send')
                    rec['t_start'] = w.k.now
                    try:
                        await w.server.send(sid, rec['val'])
                    except asyncio.CancelledError:
                        raise
                    except BaseException as e:  # noqa
                        rec['exc'] = '%s: %s' % (type(e).__name__, e)
                    if w.k.killing:
                        return
                    rec['seq_end'] = w.k.ev('api.end', id=rec['id'],
                                            name='send', exc=rec['exc'])
                    rec['t_end'] = w.k.now
                    rec['after'] = w.peek(sid)
            w.loop.spawn(arun(), 'A%d:burst' % recs[0]['id'])
    elif name == 'send_shared':
        # one Packet object sent to several sessions (broadcast idiom)
        from engineio import packet as P
        val = R.spec_to_value(op['data'])
        pkt = P.Packet(P.MESSAGE, data=val)
        for c in op.get('cs', []):
            s2 = _resolve_sid(hist, {'c': c})
            if s2 is None:
                continue
            rec = w.api('send_packet', s2, pkt, tag=op)
            rec.update({'sid': s2, 'val': val, 'before': w.peek(s2), 'c': c,
                        'shared': True})
            hist.app_sends.append(rec)
    elif name == 'disconnect':
        rec = w.api('disconnect', sid, tag=op)
        rec.update({'sid': sid, 'before': before, 'c': op.get('c')})
    elif name in ('get_session', 'transport'):
        rec = w.api(name, sid, tag=op)
        rec.update({'sid': sid, 'before': before, 'c': op.get('c')})
    elif name == 'save_session':
        rec = w.api('save_session', sid, dict(op.get('value', {})), tag=op)
        rec.update({'sid': sid, 'before': before, 'c': op.get('c'),
                    'value': dict(op.get('value', {}))})
    elif name == 'session':
        upd = dict(op.get('value', {}))
        rec = w.session_ctx(op, sid, lambda s: s.update(upd))
        rec.update({'sid': sid, 'before': before, 'c': op.get('c'),
                    'value': upd})


def _do_fault(hist, f):
    kind = f['kind']
    c = hist.clients[f['c']] if f.get('c') is not None and \
        f['c'] < len(hist.clients) else None
    if c is None:
        return
    if kind == 'ws_drop':
        ws = c.main_ws or (c.upg['conn'] if c.upg else None)
        if ws is not None:
            ws.drop()
            if ws is c.main_ws:
                c._over('ws drop')
    elif kind == 'ws_blackhole':
        ws = c.main_ws or (c.upg['conn'] if c.upg else None)
        if ws is not None:
            ws.blackhole()
    elif kind == 'vanish':
        c.end({'how': 'vanish'})

"""Deterministic simulation kernel.

One kernel owns: the virtual clock, every timer, the set of baton-passed real
threads (SimThread), an externally stepped asyncio loop (SimLoop) and the event
log.  Exactly one actor runs at any instant; which one is decided by the tape.
Computation takes zero virtual time; only timers advance the clock.
"""
import asyncio
import hashlib
import heapq
import queue as _stdqueue
import sys
import threading
import traceback

TICK = 1.0 / 1024.0


def ticks(n):
    return n * TICK


class SimKilled(SystemExit):
    """Raised at yield points of parked threads when a run is torn down.

    Derives from SystemExit so that ``except Exception`` does not swallow it
    and so that loops that treat SystemExit as "stop" (the service task) end.
    Bare ``except:`` clauses do swallow it; it is then raised again at the
    thread's next yield point until the thread has unwound.
    """


class HarnessError(Exception):
    """The simulator itself is in trouble (never reported as a VIOLATION)."""


class Timer:
    __slots__ = ('when', 'seq', 'fn', 'label', 'cancelled')

    def __init__(self, when, seq, fn, label):
        self.when = when
        self.seq = seq
        self.fn = fn
        self.label = label
        self.cancelled = False

    def cancel(self):
        self.cancelled = True

    def __lt__(self, other):
        return (self.when, self.seq) < (other.when, other.seq)


class Kernel:
    def __init__(self, tape, horizon=120.0, step_cap=200000, record_log=True):
        self.tape = tape
        self.now = 0.0
        self.horizon = horizon
        self.step_cap = step_cap
        self.seq = 0
        self.timers = []
        self.due = []
        self.runnable = []          # SimThreads able to run, in wake order
        self.threads = []
        self.current = None         # SimThread holding the baton, or None
        self.main_sem = threading.Semaphore(0)
        self.loop = None
        self.killing = False
        self.steps = 0
        self.capped = False
        self.record_log = record_log
        self.log = []
        self.thread_errors = []     # (thread name, exception repr, traceback)
        self.loop_errors = []
        self.sched_digest = hashlib.blake2b(digest_size=8)
        self.thread_counter = 0
        self.stats = {'thread_switches': 0, 'loop_steps': 0, 'timer_events': 0,
                      'clock_jumps': 0}
        Kernel.last = self          # (post-mortem of a stuck harness only)

    # -- logging -----------------------------------------------------------
    def next_seq(self):
        self.seq += 1
        return self.seq

    def ev(self, kind, **payload):
        """Append an event to the run log; returns its sequence number."""
        s = self.next_seq()
        if self.record_log and not self.killing:
            self.log.append((s, self.now, self.actor_name(), kind, payload))
        return s

    def actor_name(self):
        if self.current is not None:
            return self.current.name
        if self.loop is not None and self.loop.stepping:
            return 'loop'
        return 'kernel'

    def log_digest(self):
        h = hashlib.sha256()
        for rec in self.log:
            h.update(repr(rec).encode('utf-8', 'backslashreplace'))
        return h.hexdigest()[:32]

    # -- timers ------------------------------------------------------------
    def at(self, when, fn, label=''):
        if when < self.now:
            when = self.now
        t = Timer(when, self.next_seq(), fn, label)
        heapq.heappush(self.timers, t)
        return t

    def after(self, delay, fn, label=''):
        return self.at(self.now + max(0.0, delay), fn, label)

    fixed_latency = None

    def latency(self, lo=1, hi=8, label='lat'):
        """A tape-drawn latency in ticks, at least ``lo`` ticks."""
        if self.fixed_latency is not None:
            # (0 = requests and frames reach the server in the instant they
            # are issued; the way back still takes a tick, or a client that
            # reacts to answers at once would never let time advance)
            if label in ('lat.resp', 'lat.s2c'):
                return max(1, self.fixed_latency) * TICK
            return self.fixed_latency * TICK
        return (lo + self.tape.draw(hi - lo + 1, label)) * TICK

    # -- threads -----------------------------------------------------------
    def spawn(self, target, args=(), kwargs=None, name=None):
        th = SimThread(self, target=target, args=args, kwargs=kwargs or {},
                       name=name)
        th.start()
        return th

    def in_thread(self):
        return self.current is not None

    # -- line granularity --------------------------------------------------
    line_mean = None
    line_stall = 0
    stall_total = 0.0
    stall_max = 0.0

    def enable_lines(self, spec, roots):
        """Pre-empt sim threads between source lines of files under ``roots``.

        ``spec``: {'mean': m, 'focus': [function names] or None, 'max': n}.
        A pre-emption can only be taken where another actor is ready to run
        (anything else is a no-op); the gap between two pre-emptions, counted
        in such line events, is drawn from the tape (a zeroed slot = a long
        gap).  With a focus only lines of functions of those names count.
        Realisable under OS threads only: every primitive of the fakes is
        atomic, as the locked stdlib ones are."""
        if not isinstance(spec, dict):
            spec = {'mean': spec}
        self.line_mean = max(1, int(spec.get('mean', 4)))
        self.line_focus = frozenset(spec['focus']) if spec.get('focus') \
            else None
        self.line_left = int(spec.get('max', 1000))
        # stall: the pre-empted thread stays away for 1..stall ticks of
        # virtual time (an OS thread that lost the CPU); 0 = it only yields
        # to the actors of the same instant
        self.line_stall = int(spec.get('stall', 0))
        self.line_roots = tuple(roots)
        self.stats['line_events'] = 0
        self.stats['line_preempts'] = 0
        self.line_sites = {}
        self.line_gap = self._draw_gap()

    def line_faults(self):
        if not self.line_mean:
            return {}
        d = {'preemption_between_lines': self.stats['line_preempts']}
        if self.stats.get('line_stalls'):
            d['thread_stalled_between_lines'] = self.stats['line_stalls']
        return d

    def _draw_gap(self):
        if self.line_left <= 0:
            return None
        self.line_left -= 1
        v = self.tape.draw(2 * self.line_mean + 1, 'gap')
        return v if v else 64 * self.line_mean

    def _global_trace(self, frame, event, arg):
        code = frame.f_code
        # (finalisers run whenever the collector pleases, inside any frame)
        if code.co_name != '__del__' and \
                code.co_filename.startswith(self.line_roots) and (
                self.line_focus is None or code.co_name in self.line_focus):
            return self._local_trace
        return None

    def _local_trace(self, frame, event, arg):
        if event != 'line' or self.line_gap is None or self.killing:
            return self._local_trace
        th = self.current
        if th is None or th.no_preempt or \
                th._t is not threading.current_thread():
            return self._local_trace
        if self.line_stall or self.runnable or self.due or (
                self.timers and self.timers[0].when <= self.now) or (
                self.loop is not None and self.loop.has_work()):
            self.stats['line_events'] += 1
            self.line_gap -= 1
            if self.line_gap <= 0:
                self.line_gap = self._draw_gap()
                self.stats['line_preempts'] += 1
                site = '%s:%d' % (frame.f_code.co_filename.rsplit('/', 1)[-1],
                                  frame.f_lineno)
                self.line_sites[site] = self.line_sites.get(site, 0) + 1
                if self.line_stall:
                    d = (1 + self.tape.draw(self.line_stall, 'stall')) * TICK
                    self.stall_total += d
                    self.stall_max = max(self.stall_max, d)
                    self.stats['line_stalls'] = self.stats.get(
                        'line_stalls', 0) + 1
                    self.ev('stall', site=site, ticks=round(d / TICK))
                    self.block(d, 'stall')
                else:
                    self.ev('preempt', site=site)
                    self.yield_point('line')
        return self._local_trace

    def yield_point(self, what=''):
        """Cooperative pre-emption point; no-op outside sim threads."""
        th = self.current
        if th is None:
            return
        if self.killing:
            raise SimKilled()
        th.state = 'runnable'
        self.runnable.append(th)
        th._park()

    def block(self, timeout=None, what=''):
        """Park the current sim thread until woken or timed out.

        Returns the wake reason ('timeout' or whatever the waker passed).
        """
        th = self.current
        if th is None:
            raise HarnessError('blocking call %s from kernel context' % what)
        if self.killing:
            raise SimKilled()
        th.state = 'blocked'
        th.wake_reason = None
        th.blocked_on = what
        th.wait_token += 1
        token = th.wait_token
        timer = None
        if timeout is not None:
            def fire():
                if th.state == 'blocked' and th.wait_token == token:
                    self.wake(th, 'timeout')
            timer = self.after(timeout, fire, 'timeout:' + what)
        th.wait_timer = timer
        th._park()
        return th.wake_reason

    def wake(self, th, reason='signal'):
        if th.state != 'blocked':
            return False
        th.state = 'runnable'
        th.wake_reason = reason
        th.blocked_on = None
        if th.wait_timer is not None:
            th.wait_timer.cancel()
            th.wait_timer = None
        self.runnable.append(th)
        return True

    # -- main loop ---------------------------------------------------------
    def _due_timers(self):
        # move every timer that is due into self.due (kept in (when, seq)
        # order); cancelled ones are dropped on the way
        heap = self.timers
        moved = False
        while heap and (heap[0].cancelled or heap[0].when <= self.now):
            t = heapq.heappop(heap)
            if not t.cancelled:
                self.due.append(t)
                moved = True
        if moved:
            self.due.sort()
        if self.due:
            self.due = [t for t in self.due if not t.cancelled]
        return self.due

    def _next_time(self):
        while self.timers and self.timers[0].cancelled:
            heapq.heappop(self.timers)
        cands = []
        if self.due:
            cands.append(self.now)
        if self.timers:
            cands.append(self.timers[0].when)
        if self.loop is not None:
            t = self.loop.next_timer()
            if t is not None:
                cands.append(t)
        return min(cands) if cands else None

    aborted = False

    def run(self, until=None):
        """Run until nothing can happen before ``until`` (default: horizon)."""
        try:
            return self._run(until)
        except BaseException as e:
            if type(e).__name__ == 'RunTimeout':
                # real-time watchdog: an actor never yields again; nothing
                # can be unwound in an orderly way any more
                self.aborted = True
            raise

    def _run(self, until=None):
        limit = self.horizon if until is None else min(until, self.horizon)
        while True:
            if self.steps >= self.step_cap:
                self.capped = True
                return
            ready = []
            for t in self._due_timers():
                ready.append(('t', t))
            for th in self.runnable:
                ready.append(('th', th))
            if self.loop is not None and self.loop.has_work():
                ready.append(('loop', None))
            if ready:
                i = self.tape.draw(len(ready), 'sched')
                kind, obj = ready[i]
                self.steps += 1
                if kind == 't':
                    self.due.remove(obj)
                    obj.cancelled = True
                    self.stats['timer_events'] += 1
                    self.sched_digest.update(b't' + obj.label.encode()[:12])
                    obj.fn()
                elif kind == 'th':
                    self.runnable.remove(obj)
                    self.stats['thread_switches'] += 1
                    self.sched_digest.update(b'h' + obj.name.encode()[:12])
                    self._switch_to(obj)
                else:
                    self.stats['loop_steps'] += 1
                    self.sched_digest.update(b'l')
                    self.loop.step()
                continue
            t = self._next_time()
            if t is None or t > limit:
                # (time passes up to the horizon even when nothing is left to
                # happen: a system that has gone quiet is still judged
                # against its deadlines)
                if limit > self.now:
                    self.now = limit
                return
            if t > self.now:
                self.now = t
                self.stats['clock_jumps'] += 1

    def _switch_to(self, th):
        self.current = th
        th.sem.release()
        # (timed wait: lets the kernel thread run a pending signal handler -
        # the real-time watchdog - even if the sim thread never yields)
        while not self.main_sem.acquire(timeout=1.0):
            pass
        self.current = None

    # -- teardown ----------------------------------------------------------
    def shutdown(self):
        """Unwind every parked thread and close the loop."""
        self.killing = True
        if self.aborted:
            self.timers = []
            return len(self.threads)
        leaked = 0
        for th in list(self.threads):
            rounds = 0
            while th.state in ('runnable', 'blocked', 'new') and th.started:
                if th in self.runnable:
                    self.runnable.remove(th)
                th.state = 'runnable'
                th.wake_reason = 'killed'
                self._switch_to(th)
                rounds += 1
                if rounds > 10000:
                    leaked += 1
                    break
        if self.loop is not None:
            self.loop.shutdown()
        for th in self.threads:
            if th.started and th._t.is_alive():
                th._t.join(0.5)
                if th._t.is_alive():
                    leaked += 1
        self.timers = []
        return leaked

    def describe(self):
        cur = self.current
        return 'current=%s now=%r steps=%d runnable=%r threads=%r' % (
            cur and (cur.name, cur.state, cur._t.is_alive()), self.now,
            self.steps, [t.name for t in self.runnable],
            [(t.name, t.state, t.blocked_on, t._t.is_alive())
             for t in self.threads])

    def blocked_threads(self):
        return [th for th in self.threads if th.state == 'blocked']


class SimThread:
    """API-compatible subset of threading.Thread, scheduled by the kernel."""

    def __init__(self, kernel=None, target=None, args=(), kwargs=None,
                 name=None, daemon=None, group=None):
        self.kernel = kernel or _default_kernel()
        self.target = target
        self.args = args
        self.kwargs = kwargs or {}
        self.kernel.thread_counter += 1
        self.ident_ = self.kernel.thread_counter
        self.name = name or ('T%d:%s' % (
            self.ident_, getattr(target, '__name__', 'thread')))
        self.daemon = True
        self.sem = threading.Semaphore(0)
        self.state = 'new'
        self.started = False
        self.wake_reason = None
        self.blocked_on = None
        self.wait_token = 0
        self.wait_timer = None
        self.joiners = []
        self.no_preempt = 0
        self.exc = None
        self.spawn_seq = None
        self._t = threading.Thread(target=self._boot, daemon=True)

    def start(self):
        k = self.kernel
        if self.started:
            raise RuntimeError('threads can only be started once')
        self.started = True
        self.state = 'runnable'
        k.threads.append(self)
        k.runnable.append(self)
        self.spawn_seq = k.ev('spawn', thread=self.name)
        cur = k.current
        if cur is not None:
            cur.no_preempt += 1
        try:
            self._t.start()
        finally:
            if cur is not None:
                cur.no_preempt -= 1
        k.yield_point('thread.start')

    def _park(self):
        # give the baton back to the kernel and wait for it to come back
        k = self.kernel
        k.main_sem.release()
        self.sem.acquire()
        if k.killing:
            raise SimKilled()

    def _boot(self):
        k = self.kernel
        self.sem.acquire()
        try:
            if not k.killing:
                if k.line_mean:
                    sys.settrace(k._global_trace)
                self.target(*self.args, **self.kwargs)
        except SimKilled:
            pass
        except SystemExit:
            pass
        except BaseException as e:  # noqa
            self.exc = e
            k.thread_errors.append(
                (self.name, repr(e), traceback.format_exc(limit=12)))
        finally:
            if k.line_mean:
                sys.settrace(None)
            self.state = 'done'
            for j in self.joiners:
                k.wake(j, 'joined')
            self.joiners = []
            k.main_sem.release()

    def join(self, timeout=None):
        k = self.kernel
        if not self.started:
            raise RuntimeError('cannot join thread before it is started')
        if k.current is self:
            raise RuntimeError('cannot join current thread')
        k.yield_point('thread.join')
        while self.state != 'done':
            if k.current is None:
                raise HarnessError('join from kernel context')
            self.joiners.append(k.current)
            r = k.block(timeout, 'join:' + self.name)
            if r == 'timeout':
                if k.current in self.joiners:
                    self.joiners.remove(k.current)
                return

    def is_alive(self):
        return self.started and self.state != 'done'


_kernel_stack = []


def _default_kernel():
    if not _kernel_stack:
        raise HarnessError('no active kernel')
    return _kernel_stack[-1]


def push_kernel(k):
    _kernel_stack.append(k)


def pop_kernel():
    _kernel_stack.pop()


class SimQueue:
    """queue.Queue semantics (unbounded), including the join/notify race:
    a join() waiter woken by task_done() re-checks ``unfinished_tasks`` when it
    next runs, exactly like the Condition-based stdlib implementation."""

    def __init__(self, maxsize=0, kernel=None):
        self.kernel = kernel or _default_kernel()
        self.items = []
        self.unfinished_tasks = 0
        self.getters = []
        self.joiners = []
        self.Empty = _stdqueue.Empty

    def qsize(self):
        return len(self.items)

    def empty(self):
        return not self.items

    def put(self, item, block=True, timeout=None):
        k = self.kernel
        k.yield_point('q.put')
        self.items.append(item)
        self.unfinished_tasks += 1
        if self.getters:
            k.wake(self.getters.pop(0), 'item')

    put_nowait = put

    def get(self, block=True, timeout=None):
        k = self.kernel
        k.yield_point('q.get')
        if not block:
            if not self.items:
                raise _stdqueue.Empty()
            return self.items.pop(0)
        if k.current is None:
            if not self.items:
                raise HarnessError('blocking get from kernel context')
            return self.items.pop(0)
        endtime = None if timeout is None else k.now + timeout
        while not self.items:
            remaining = None
            if endtime is not None:
                remaining = endtime - k.now
                if remaining <= 0.0:
                    raise _stdqueue.Empty()
            me = k.current
            self.getters.append(me)
            k.block(remaining, 'q.get')
            if me in self.getters:
                self.getters.remove(me)
        return self.items.pop(0)

    def get_nowait(self):
        return self.get(block=False)

    def task_done(self):
        k = self.kernel
        k.yield_point('q.task_done')
        unfinished = self.unfinished_tasks - 1
        if unfinished <= 0:
            if unfinished < 0:
                raise ValueError('task_done() called too many times')
            for j in self.joiners:
                k.wake(j, 'all_done')
            self.joiners = []
        self.unfinished_tasks = unfinished

    def join(self):
        k = self.kernel
        k.yield_point('q.join')
        while self.unfinished_tasks:
            me = k.current
            if me is None:
                raise HarnessError('queue.join from kernel context')
            self.joiners.append(me)
            k.block(None, 'q.join')
            if me in self.joiners:
                self.joiners.remove(me)


class SimEvent:
    def __init__(self, kernel=None):
        self.kernel = kernel or _default_kernel()
        self.flag = False
        self.waiters = []

    def is_set(self):
        return self.flag

    isSet = is_set

    def set(self):
        k = self.kernel
        k.yield_point('ev.set')
        self.flag = True
        for w in self.waiters:
            k.wake(w, 'set')
        self.waiters = []

    def clear(self):
        self.flag = False

    def wait(self, timeout=None):
        k = self.kernel
        k.yield_point('ev.wait')
        if self.flag:
            return True
        me = k.current
        if me is None:
            raise HarnessError('event.wait from kernel context')
        self.waiters.append(me)
        k.block(timeout, 'ev.wait')
        if me in self.waiters:
            self.waiters.remove(me)
        return self.flag


class SimLock:
    """threading.Lock semantics (non-reentrant)."""

    def __init__(self, kernel=None):
        self.k = kernel or _default_kernel()
        self._locked = False
        self.waiters = []

    def locked(self):
        return self._locked

    def acquire(self, blocking=True, timeout=-1):
        k = self.k
        if not self._locked:
            self._locked = True
            return True
        if not blocking:
            return False
        if k.current is None:
            raise HarnessError('blocking Lock.acquire from kernel context')
        deadline = None if timeout is None or timeout < 0 else \
            k.now + timeout
        while self._locked:
            me = k.current
            self.waiters.append(me)
            r = k.block(None if deadline is None else
                        max(0.0, deadline - k.now), 'lock.acquire')
            if me in self.waiters:
                self.waiters.remove(me)
            if r == 'timeout' and self._locked:
                return False
        self._locked = True
        return True

    def release(self):
        if not self._locked:
            raise RuntimeError('release unlocked lock')
        self._locked = False
        for th in list(self.waiters):
            self.k.wake(th, 'lock')

    def __enter__(self):
        self.acquire()
        return self

    def __exit__(self, *exc):
        self.release()
        return False


def sim_sleep(seconds=0, kernel=None):
    k = kernel or _default_kernel()
    if k.current is None:
        raise HarnessError('sleep from kernel context')
    if seconds is None or seconds <= 0:
        k.yield_point('sleep0')
        return
    k.block(seconds, 'sleep')


class SimTimeModule:
    """Stands in for the ``time`` module where the code reads the clock."""

    def __init__(self, kernel, base=1_700_000_000.0):
        self._k = kernel
        self._base = base

    def time(self):
        return self._base + self._k.now

    def monotonic(self):
        return self._k.now

    def sleep(self, seconds=0):
        sim_sleep(seconds, self._k)


# ---------------------------------------------------------------------------
# asyncio under the kernel
# ---------------------------------------------------------------------------

class _NullSelector:
    def select(self, timeout=None):
        return []

    def close(self):
        pass


class SimLoop(asyncio.BaseEventLoop):
    """asyncio loop whose clock is the kernel's and which never blocks.

    The kernel calls ``step()`` (one ``_run_once``) whenever it decides that
    the loop is the actor to run.  The ready queue stays FIFO: asyncio
    guarantees call_soon order and the simulator must not manufacture
    executions that cannot happen.
    """

    def __init__(self, kernel):
        super().__init__()
        self._kernel = kernel
        self._clock_resolution = 1e-9
        self._selector = _NullSelector()
        self.stepping = False
        kernel.loop = self
        self.set_exception_handler(self._on_exception)
        self._task_counter = 0

    def _on_exception(self, loop, context):
        msg = context.get('message', '')
        exc = context.get('exception')
        self._kernel.loop_errors.append((msg, repr(exc)))

    def time(self):
        return self._kernel.now

    def _process_events(self, event_list):
        pass

    def _write_to_self(self):
        pass

    def has_work(self):
        if self._ready:
            return True
        t = self.next_timer()
        return t is not None and t <= self._kernel.now

    def next_timer(self):
        sched = self._scheduled
        while sched and sched[0]._cancelled:
            h = heapq.heappop(sched)
            h._scheduled = False
            self._timer_cancelled_count = max(
                0, self._timer_cancelled_count - 1)
        if sched:
            return sched[0]._when
        return None

    def step(self):
        self.stepping = True
        self._thread_id = threading.get_ident()
        asyncio.events._set_running_loop(self)
        try:
            self._run_once()
        finally:
            asyncio.events._set_running_loop(None)
            self._thread_id = None
            self.stepping = False

    def spawn(self, coro, name):
        return self.create_task(coro, name=name)

    def shutdown(self):
        try:
            for _ in range(50):
                tasks = [t for t in asyncio.all_tasks(self) if not t.done()]
                if not tasks and not self._ready:
                    break
                for t in tasks:
                    t.cancel()
                for _ in range(20):
                    if not self._ready:
                        break
                    self.step()
            for t in asyncio.all_tasks(self):
                if t.done() and not t.cancelled():
                    t.exception()   # mark retrieved
        finally:
            self._ready.clear()
            self._scheduled.clear()
            if not self.is_closed():
                self.close()


def run_digest(kernel):
    return kernel.log_digest()
